/* C12 unit-level harness: opens <file> with the real sqfs_istream_open_file and issues the given
 * sqfs_istream_read requests; prints, per request, the returned count and the crc32 of the bytes.
 * An argument pN is a single look: get_buffered_data(want = N) without consuming; printed as [-1000 - size seen, crc of
 * the first min(size, N) bytes].
 * The OS answers are scripted by harness/preload.c (VP_READ_SCRIPT).  usage: replay_stream file [pN] n1 n2 ...
 * file = mem:<buffer size>:<path>: the same requests on the in-memory implementation of the stream interface (istream_memory_create). */
#include <stdio.h>
#include <stdlib.h>
#include <zlib.h>
#include "sqfs/io.h"
#include "sqfs/error.h"
#include <string.h>
sqfs_istream_t *istream_memory_create(const char *name, size_t bufsz, const void *data, size_t size);
int main(int argc, char **argv)
{
	sqfs_istream_t *in = NULL;
	unsigned char *blob = NULL;
	if (argc >= 2 && !strncmp(argv[1], "mem:", 4)) {
		size_t bufsz = strtoul(argv[1] + 4, NULL, 10), len = 0;
		const char *path = strchr(argv[1] + 4, ':');
		FILE *f = path ? fopen(path + 1, "rb") : NULL;
		if (!f) { printf("{\"fatal\":\"open\"}\n"); return 0; }
		fseek(f, 0, SEEK_END); len = ftell(f); fseek(f, 0, SEEK_SET);
		blob = malloc(len ? len : 1);
		if (fread(blob, 1, len, f) != len) return 2;
		fclose(f);
		in = istream_memory_create("mem", bufsz, blob, len);
		if (!in) { printf("{\"fatal\":\"create\"}\n"); return 0; }
	} else
	if (argc < 2 || sqfs_istream_open_file(&in, argv[1], 0)) { printf("{\"fatal\":\"open\"}\n"); return 0; }
	printf("{\"results\":[");
	for (int i = 2; i < argc; ++i) {
		if (argv[i][0] == 'p') {
			size_t want = strtoul(argv[i] + 1, NULL, 10), size = 0;
			const sqfs_u8 *ptr = NULL;
			int ret = in->get_buffered_data(in, &ptr, &size, want);
			size_t m = size < want ? size : want;
			if (ret < 0) printf("%s[%d,0]", i > 2 ? "," : "", ret);
			else printf("%s[%ld,%lu]", i > 2 ? "," : "", -1000L - (long)size, (ret == 0 && m > 0) ? crc32(0, ptr, m) : 0UL);
			continue;
		}
		size_t n = strtoul(argv[i], NULL, 10);
		unsigned char *buf = malloc(n ? n : 1);
		sqfs_s32 r = sqfs_istream_read(in, buf, n);
		printf("%s[%d,%lu]", i > 2 ? "," : "", r, r > 0 ? crc32(0, buf, r) : 0UL);
		free(buf);
	}
	printf("]}\n");
	sqfs_drop(in);
	free(blob);
	return 0;
}
