/* C12 unit-level harness: opens <file> with the real sqfs_istream_open_file and issues the given
 * sqfs_istream_read requests; prints, per request, the returned count and the crc32 of the bytes.
 * The OS answers are scripted by harness/preload.c (VP_READ_SCRIPT).  usage: replay_stream file n1 n2 ... */
#include <stdio.h>
#include <stdlib.h>
#include <zlib.h>
#include "sqfs/io.h"
#include "sqfs/error.h"
int main(int argc, char **argv)
{
	sqfs_istream_t *in = NULL;
	if (argc < 2 || sqfs_istream_open_file(&in, argv[1], 0)) { printf("{\"fatal\":\"open\"}\n"); return 0; }
	printf("{\"results\":[");
	for (int i = 2; i < argc; ++i) {
		size_t n = strtoul(argv[i], NULL, 10);
		unsigned char *buf = malloc(n ? n : 1);
		sqfs_s32 r = sqfs_istream_read(in, buf, n);
		printf("%s[%d,%lu]", i > 2 ? "," : "", r, r > 0 ? crc32(0, buf, r) : 0UL);
		free(buf);
	}
	printf("]}\n");
	sqfs_drop(in);
	return 0;
}
