/* Replays programs emitted from spec/InodeForm.tla on a real file inode: the helper functions of lib/sqfs/src/inode.c and the
 * direct field updates of the block processor / tree serialiser; the inode is then written with the real meta writer and
 * read back with the real meta reader; what comes back is printed in the model's value classes.
 * stdin: one program per line, ops separated by blanks: size:<v> start:<v> frag:<none|some> xattr:<none|some> sparse nlink:<n> ext basic
 * usage: replay_inode <scratch file> */
#include <stdio.h>
#include <stdlib.h>
#include <string.h>
#include "sqfs/inode.h"
#include "sqfs/meta_writer.h"
#include "sqfs/meta_reader.h"
#include "sqfs/compressor.h"
#include "sqfs/super.h"
#include "sqfs/io.h"
#include "sqfs/error.h"

#define BS (1u << 20)
#define MAXBLK 4300000		/* "huge": 4 TiB at 1 MiB per block = a block size list of 16 MiB */

static sqfs_u64 val(const char *c)
{
	if (!strcmp(c, "zero")) return 0;
	if (!strcmp(c, "lo")) return 3 * (sqfs_u64)BS + 17;
	if (!strcmp(c, "max")) return 0xFFFFFFFFUL;
	if (!strcmp(c, "huge")) return 0x40000000005ULL;
	return 0x100000005ULL;
}

static const char *cls(sqfs_u64 v)
{
	if (v == 0) return "zero";
	if (v == 3 * (sqfs_u64)BS + 17) return "lo";
	if (v == 0xFFFFFFFFUL) return "max";
	if (v == 0x100000005ULL) return "hi";
	if (v == 0x40000000005ULL) return "huge";
	return "OTHER";
}

int main(int argc, char **argv)
{
	sqfs_compressor_config_t cfg;
	sqfs_compressor_t *cmp, *ucmp;
	char line[1024];

	if (argc < 2) return 2;
	sqfs_compressor_config_init(&cfg, SQFS_COMP_GZIP, BS, 0);
	if (sqfs_compressor_create(&cfg, &cmp)) return 2;
	sqfs_compressor_config_init(&cfg, SQFS_COMP_GZIP, BS, SQFS_COMP_FLAG_UNCOMPRESS);
	if (sqfs_compressor_create(&cfg, &ucmp)) return 2;

	while (fgets(line, sizeof(line), stdin)) {
		sqfs_inode_generic_t *ino, *back = NULL;
		sqfs_meta_writer_t *mw;
		sqfs_meta_reader_t *mr;
		sqfs_file_t *file = NULL;
		sqfs_super_t super;
		sqfs_u64 size = 0, start = 0, count;
		sqfs_u32 fi = 0, fo = 0, xi = 0;
		char *tok;
		int err = 0, r;

		int huge = strstr(line, "huge") != NULL;
		ino = calloc(1, sizeof(*ino) + (huge ? MAXBLK : 4200) * sizeof(sqfs_u32));
		if (!ino) return 2;
		ino->base.type = SQFS_INODE_FILE;
		ino->base.mode = 0100644;
		ino->base.inode_number = 1;
		const char *okind = "file";
		if (!strncmp(line, "kind:", 5)) {
			/* the other kinds: link count in both forms, xattr index in the extended one */
			if (!strncmp(line + 5, "dir", 3)) { okind = "dir"; ino->base.type = SQFS_INODE_DIR; ino->base.mode = 040755; ino->data.dir.nlink = 1; ino->data.dir.size = 3; ino->data.dir.parent_inode = 2; }
			else if (!strncmp(line + 5, "slink", 5)) { okind = "slink"; ino->base.type = SQFS_INODE_SLINK; ino->base.mode = 0120777; ino->data.slink.nlink = 1; ino->data.slink.target_size = 5; memcpy(ino->extra, "tgt__", 5); ino->payload_bytes_used = ino->payload_bytes_available = 5; }
			else if (!strncmp(line + 5, "dev", 3)) { okind = "dev"; ino->base.type = SQFS_INODE_CDEV; ino->base.mode = 020600; ino->data.dev.nlink = 1; ino->data.dev.devno = 0x0501; }
			else { okind = "ipc"; ino->base.type = SQFS_INODE_FIFO; ino->base.mode = 010600; ino->data.ipc.nlink = 1; }
		} else {
			sqfs_inode_set_frag_location(ino, 0xFFFFFFFF, 0xFFFFFFFF);	/* begin_file of the block processor */
		}

		for (tok = strtok(line, " \n"); tok; tok = strtok(NULL, " \n")) {
			if (!strncmp(tok, "size:", 5)) r = sqfs_inode_set_file_size(ino, val(tok + 5));
			else if (!strncmp(tok, "start:", 6)) r = sqfs_inode_set_file_block_start(ino, val(tok + 6));
			else if (!strcmp(tok, "frag:some")) r = sqfs_inode_set_frag_location(ino, 3, 100);
			else if (!strcmp(tok, "frag:none")) r = sqfs_inode_set_frag_location(ino, 0xFFFFFFFF, 0xFFFFFFFF);
			else if (!strcmp(tok, "xattr:some")) r = sqfs_inode_set_xattr_index(ino, 7);
			else if (!strcmp(tok, "xattr:none")) r = sqfs_inode_set_xattr_index(ino, 0xFFFFFFFF);
			else if (!strcmp(tok, "sparse")) { r = sqfs_inode_make_extended(ino); ino->data.file_ext.sparse += 512; }
			else if (!strncmp(tok, "kind:", 5)) r = 0;
			else if (!strncmp(tok, "nlink:", 6) && strcmp(okind, "file")) {
				sqfs_u32 n = atoi(tok + 6);
				r = 0;
				switch (ino->base.type) {
				case SQFS_INODE_DIR: ino->data.dir.nlink = n; break;
				case SQFS_INODE_EXT_DIR: ino->data.dir_ext.nlink = n; break;
				case SQFS_INODE_SLINK: ino->data.slink.nlink = n; break;
				case SQFS_INODE_EXT_SLINK: ino->data.slink_ext.nlink = n; break;
				case SQFS_INODE_CDEV: ino->data.dev.nlink = n; break;
				case SQFS_INODE_EXT_CDEV: ino->data.dev_ext.nlink = n; break;
				case SQFS_INODE_FIFO: ino->data.ipc.nlink = n; break;
				case SQFS_INODE_EXT_FIFO: ino->data.ipc_ext.nlink = n; break;
				default: r = -1;
				}
			}
			else if (!strncmp(tok, "nlink:", 6)) {
				sqfs_u32 n = atoi(tok + 6);
				r = 0;
				if (ino->base.type == SQFS_INODE_FILE && n > 1) {	/* serialize_tree_node */
					r = sqfs_inode_make_extended(ino);
					ino->data.file_ext.nlink = n;
				} else {
					ino->data.file_ext.nlink = n;
				}
			}
			else if (!strcmp(tok, "ext")) r = sqfs_inode_make_extended(ino);
			else if (!strcmp(tok, "basic")) r = sqfs_inode_make_basic(ino);
			else { fprintf(stderr, "op %s\n", tok); return 2; }
			if (r) err = r;
		}
		if (!strcmp(okind, "file")) {
			sqfs_inode_get_file_size(ino, &size);
			sqfs_inode_get_frag_location(ino, &fi, &fo);
			count = size / BS;
			if ((size % BS) && (fi == 0xFFFFFFFF || fo == 0xFFFFFFFF)) count++;
			if (count > (huge ? MAXBLK : 4200)) return 2;
			ino->payload_bytes_available = ino->payload_bytes_used = count * sizeof(sqfs_u32);
		}

		if (sqfs_file_open(&file, argv[1], SQFS_FILE_OPEN_OVERWRITE)) return 2;
		sqfs_super_init(&super, BS, 0, SQFS_COMP_GZIP);
		super.inode_table_start = 0;	/* read_inode seeks relative to it */
		mw = sqfs_meta_writer_create(file, cmp, 0);
		if (!mw) return 2;
		r = sqfs_meta_writer_write_inode(mw, ino);
		if (!r) r = sqfs_meta_writer_flush(mw);
		sqfs_drop(mw);
		mr = sqfs_meta_reader_create(file, ucmp, 0, file->get_size(file));
		if (!mr) return 2;
		if (!r) r = sqfs_meta_reader_read_inode(mr, &super, 0, 0, &back);
		if (r || !back) {
			printf("{\"err\":%d,\"io\":%d}\n", err, r);
		} else if (strcmp(okind, "file")) {
			sqfs_u32 nl = 0;
			int ext = 0;
			switch (back->base.type) {
			case SQFS_INODE_DIR: nl = back->data.dir.nlink; break;
			case SQFS_INODE_EXT_DIR: nl = back->data.dir_ext.nlink; ext = 1; break;
			case SQFS_INODE_SLINK: nl = back->data.slink.nlink; break;
			case SQFS_INODE_EXT_SLINK: nl = back->data.slink_ext.nlink; ext = 1; break;
			case SQFS_INODE_CDEV: nl = back->data.dev.nlink; break;
			case SQFS_INODE_EXT_CDEV: nl = back->data.dev_ext.nlink; ext = 1; break;
			case SQFS_INODE_FIFO: nl = back->data.ipc.nlink; break;
			case SQFS_INODE_EXT_FIFO: nl = back->data.ipc_ext.nlink; ext = 1; break;
			default: nl = 9999;
			}
			sqfs_inode_get_xattr_index(back, &xi);
			printf("{\"err\":%d,\"ext\":%s,\"size\":\"zero\",\"start\":\"zero\",\"frag\":\"none\",\"sparse\":false,\"nlink\":%u,\"xattr\":\"%s\"}\n", err,
			       ext ? "true" : "false", nl, xi == 7 ? "some" : (xi == 0xFFFFFFFF ? "none" : (xi == 0 ? "zero" : "OTHER")));
		} else {
			int ext = back->base.type == SQFS_INODE_EXT_FILE;
			sqfs_inode_get_file_size(back, &size);
			sqfs_inode_get_file_block_start(back, &start);
			sqfs_inode_get_frag_location(back, &fi, &fo);
			sqfs_inode_get_xattr_index(back, &xi);
			printf("{\"err\":%d,\"ext\":%s,\"size\":\"%s\",\"start\":\"%s\",\"frag\":\"%s\",\"sparse\":%s,\"nlink\":%u,\"xattr\":\"%s\"}\n", err,
			       ext ? "true" : "false", cls(size), cls(start), (fi == 3 && fo == 100) ? "some" : ((fi == 0xFFFFFFFF && fo == 0xFFFFFFFF) ? "none" : "OTHER"),
			       (ext && back->data.file_ext.sparse) ? "true" : "false", ext ? back->data.file_ext.nlink : 1,
			       xi == 7 ? "some" : (xi == 0xFFFFFFFF ? "none" : "OTHER"));
		}
		fflush(stdout);
		sqfs_free(back);
		sqfs_drop(mr);
		sqfs_drop(file);
		free(ino);
	}
	sqfs_drop(cmp);
	sqfs_drop(ucmp);
	return 0;
}
