/* Table of the real tar number writer / reader (spec/TarNum.tla): write_number / write_number_signed of lib/tar/src/write_header.c
 * (static: the source file is included) and read_number of lib/tar/src/number.c at field widths 3, 4 and 8.
 * usage: replay_tarnum <max>      one JSON record per (width, value): {"w","v","neg","bytes":[..],"back","rc"} */
#include <stdio.h>
#include <stdlib.h>
#include <string.h>
#include WRITE_HEADER_C
#include "tar/format.h"

static void rec(int w, long v, int neg)
{
	char f[16];
	sqfs_u64 back = 0;
	memset(f, 0x55, sizeof f);
	if (neg) write_number_signed(f, -(sqfs_s64)v, w); else write_number(f, (sqfs_u64)v, w);
	int rc = read_number(f, w, &back);
	long b = (long)back;
	if (neg) b = -(long)(sqfs_s64)back;
	printf("{\"w\":%d,\"v\":%ld,\"neg\":%s,\"bytes\":[", w, v, neg ? "true" : "false");
	for (int i = 0; i < w; ++i) printf("%s%u", i ? "," : "", (unsigned char)f[i]);
	printf("],\"back\":%ld,\"rc\":%d,\"guard\":%s}\n", b, rc ? 1 : 0, (unsigned char)f[w] == 0x55 ? "true" : "false");
}

int main(int argc, char **argv)
{
	long max = argc > 1 ? atol(argv[1]) : 5000;
	for (int w = 3; w <= 4; ++w) {
		for (long v = 0; v <= max; ++v) rec(w, v, 0);
		for (long v = 1; v <= 300; ++v) rec(w, v, 1);
		rec(w, w == 3 ? 65536 : 16777216, 1);
	}
	/* the 8 byte fields (uid, gid, device numbers): around both boundaries and the largest values TLC can hold */
	static const long b8[] = { 0, 1, 2097150, 2097151, 2097152, 2097153, 16777214, 16777215, 16777216, 16777217, 1000000000, 2147483646, 2147483647 };
	for (size_t i = 0; i < sizeof b8 / sizeof b8[0]; ++i) rec(8, b8[i], 0);
	return 0;
}
