/* LD_PRELOAD shim for process-level bindings (C11-C15).  Behaviour from the environment:
 *  VP_OUT=<abs path>      the tool's output file; fds are matched through /proc/self/fd
 *  VP_LOG=<file>          append one line per observed call: "<n> <call> <fd-class> <offset> <len> <ret>"
 *  VP_KILL_AT=k           _exit(99) immediately BEFORE the k-th output-file call (pwrite/write/ftruncate on VP_OUT)
 *  VP_FAIL_CLASS=w|r|o|t  VP_FAIL_AT=k  VP_FAIL_ERRNO=n  [VP_FAIL_EINTR_FIRST=1]
 *                         the k-th call of that class (write-like / read-like / open / truncate+fsync) fails with errno n
 *                         (with EINTR_FIRST: first EINTR, the retry then fails with n)
 *  VP_SHORT=seed VP_SHORT_MODE=one|rand|half  VP_EINTR=1
 *                         read/write/pread/pwrite return short counts (never 0 unless EOF) and spurious EINTRs
 *  VP_READDIR=reverse|<seed>   permute the entries returned by readdir per directory
 *  VP_ALLOC_FAIL_AT=k     the k-th malloc/calloc/realloc/strdup/strndup called from the main executable returns NULL
 *  VP_COUNT_LOG=<file>    at exit write "<allocations> <output calls> <calls of VP_FAIL_CLASS>"
 * stderr (fd 2) is never touched. */
#define _GNU_SOURCE
#include <dlfcn.h>
#include <dirent.h>
#include <errno.h>
#include <fcntl.h>
#include <link.h>
#include <stdarg.h>
#include <stdint.h>
#include <stdio.h>
#include <stdlib.h>
#include <string.h>
#include <sys/types.h>
#include <unistd.h>

static int inited;
static char out_path[4096];
static int log_fd = -1;
static long kill_at, fail_at, alloc_fail_at, short_seed;
static int fail_errno, fail_eintr_first, eintr_on, short_on;
static char fail_class, short_mode = 'r';
static long n_out, n_class, n_alloc;
static char readdir_mode[4200];
static uintptr_t exe_lo, exe_hi;
static unsigned long long rng;
static int count_allocs;
static int pending_fail;     /* EINTR was delivered, the retry must fail */

static ssize_t (*r_read)(int, void *, size_t);
static ssize_t (*r_write)(int, const void *, size_t);
static ssize_t (*r_pread)(int, void *, size_t, off_t);
static ssize_t (*r_pwrite)(int, const void *, size_t, off_t);
static int (*r_ftruncate)(int, off_t);
static int (*r_fsync)(int);
static int (*r_close)(int);
static struct dirent *(*r_readdir)(DIR *);
static int (*r_closedir)(DIR *);
extern void *__libc_malloc(size_t);
extern void *__libc_calloc(size_t, size_t);
extern void *__libc_realloc(void *, size_t);

static int phdr_cb(struct dl_phdr_info *info, size_t size, void *data)
{
	(void)size; (void)data;
	if (exe_hi == 0) {   /* first object = main executable */
		uintptr_t lo = (uintptr_t)-1, hi = 0;
		for (int i = 0; i < info->dlpi_phnum; ++i) {
			const ElfW(Phdr) *p = &info->dlpi_phdr[i];
			if (p->p_type != PT_LOAD) continue;
			uintptr_t a = info->dlpi_addr + p->p_vaddr;
			if (a < lo) lo = a;
			if (a + p->p_memsz > hi) hi = a + p->p_memsz;
		}
		exe_lo = lo; exe_hi = hi;
	}
	return 1;
}

static long envl(const char *n) { const char *v = getenv(n); return v ? atol(v) : 0; }

static void init(void)
{
	if (inited) return;
	inited = 1;
	r_read = dlsym(RTLD_NEXT, "read"); r_write = dlsym(RTLD_NEXT, "write");
	r_pread = dlsym(RTLD_NEXT, "pread64"); r_pwrite = dlsym(RTLD_NEXT, "pwrite64");
	r_ftruncate = dlsym(RTLD_NEXT, "ftruncate64"); r_fsync = dlsym(RTLD_NEXT, "fsync");
	r_close = dlsym(RTLD_NEXT, "close");
	r_readdir = dlsym(RTLD_NEXT, "readdir64"); r_closedir = dlsym(RTLD_NEXT, "closedir");
	const char *v;
	if ((v = getenv("VP_OUT"))) strncpy(out_path, v, sizeof out_path - 1);
	if ((v = getenv("VP_LOG"))) log_fd = open(v, O_WRONLY | O_CREAT | O_APPEND | O_CLOEXEC, 0644);
	kill_at = envl("VP_KILL_AT"); fail_at = envl("VP_FAIL_AT"); fail_errno = (int)envl("VP_FAIL_ERRNO");
	fail_eintr_first = (int)envl("VP_FAIL_EINTR_FIRST");
	if ((v = getenv("VP_FAIL_CLASS"))) fail_class = v[0];
	if ((v = getenv("VP_SHORT"))) { short_on = 1; short_seed = atol(v); rng = (unsigned long long)short_seed * 2654435761ULL + 7; }
	if ((v = getenv("VP_SHORT_MODE"))) short_mode = v[0];
	eintr_on = (int)envl("VP_EINTR");
	if ((v = getenv("VP_READDIR"))) strncpy(readdir_mode, v, sizeof readdir_mode - 1);
	alloc_fail_at = envl("VP_ALLOC_FAIL_AT");
	count_allocs = alloc_fail_at || getenv("VP_COUNT_LOG");
	dl_iterate_phdr(phdr_cb, NULL);
}

static unsigned rnd(unsigned n) { rng = rng * 6364136223846793005ULL + 1442695040888963407ULL; return (unsigned)(rng >> 33) % (n ? n : 1); }

static int is_out(int fd)
{
	char link[64], buf[4096];
	if (!out_path[0] || fd <= 2) return 0;
	snprintf(link, sizeof link, "/proc/self/fd/%d", fd);
	ssize_t n = readlink(link, buf, sizeof buf - 1);
	if (n <= 0) return 0;
	buf[n] = 0;
	return strcmp(buf, out_path) == 0;
}

static void logc(const char *call, int fd, long long off, long long len, long long ret)
{
	if (log_fd < 0) return;
	char line[160];
	int n = snprintf(line, sizeof line, "%s %s %lld %lld %lld\n", call, is_out(fd) ? "out" : "other", off, len, ret);
	r_write(log_fd, line, n);
}

static void out_gate(int fd)
{
	if (!is_out(fd)) return;
	++n_out;
	if (kill_at && n_out == kill_at) _exit(99);
}

/* returns 1 and sets errno when this call has to fail */
static int class_gate(char cls, int fd)
{
	if (fd == 2 || fd == log_fd || cls != fail_class) return 0;
	if (pending_fail) { pending_fail = 0; errno = fail_errno; return 1; }
	++n_class;
	if (n_class != fail_at) return 0;
	if (fail_eintr_first) { pending_fail = 1; errno = EINTR; return 1; }
	errno = fail_errno;
	return 1;
}

static size_t shorten(size_t n, int fd)
{
	if (!short_on || n <= 1 || fd == 2 || fd == log_fd) return n;
	switch (short_mode) {
	case 'o': return 1;
	case 'h': return n / 2 ? n / 2 : 1;
	default: return rnd(4) == 0 ? n : 1 + rnd((unsigned)(n > 1000000 ? 1000000 : n));
	}
}
static int want_eintr(int fd) { return eintr_on && short_on && fd != 2 && fd != log_fd && rnd(5) == 0; }

/* VP_READ_SCRIPT="<abs path>|k1,k2,E,..." : successive read() calls on that file return at most k_i bytes / EINTR */
static char script_path[4096];
static const char *script_pos;
static int script_match(int fd)
{
	static int parsed;
	if (!parsed) {
		const char *v = getenv("VP_READ_SCRIPT");
		parsed = 1;
		if (v) { const char *bar = strchr(v, '|'); if (bar && (size_t)(bar - v) < sizeof script_path) { memcpy(script_path, v, bar - v); script_pos = bar + 1; } }
	}
	if (!script_pos || !*script_pos || fd <= 2) return 0;
	char link[64], buf[4096];
	snprintf(link, sizeof link, "/proc/self/fd/%d", fd);
	ssize_t n = readlink(link, buf, sizeof buf - 1);
	if (n <= 0) return 0;
	buf[n] = 0;
	return strcmp(buf, script_path) == 0;
}

ssize_t read(int fd, void *b, size_t n)
{
	init();
	if (script_match(fd)) {
		if (*script_pos == 'E') { script_pos += (script_pos[1] == ',') ? 2 : 1; errno = EINTR; return -1; }
		char *end; long k = strtol(script_pos, &end, 10);
		script_pos = (*end == ',') ? end + 1 : end;
		if (k > 0 && (size_t)k < n) n = (size_t)k;
		return r_read(fd, b, n);
	}
	if (class_gate('r', fd)) return -1;
	if (want_eintr(fd)) { errno = EINTR; return -1; }
	ssize_t r = r_read(fd, b, shorten(n, fd));
	logc("read", fd, -1, (long long)n, r);
	return r;
}
ssize_t write(int fd, const void *b, size_t n)
{
	init();
	if (fd != 2 && fd != log_fd) out_gate(fd);
	if (class_gate('w', fd)) return -1;
	if (want_eintr(fd)) { errno = EINTR; return -1; }
	ssize_t r = r_write(fd, b, shorten(n, fd));
	if (fd != 2) logc("write", fd, -1, (long long)n, r);
	return r;
}
ssize_t pread64(int fd, void *b, size_t n, off_t o)
{
	init();
	if (class_gate('r', fd)) return -1;
	if (want_eintr(fd)) { errno = EINTR; return -1; }
	ssize_t r = r_pread(fd, b, shorten(n, fd), o);
	logc("pread", fd, (long long)o, (long long)n, r);
	return r;
}
ssize_t pread(int fd, void *b, size_t n, off_t o) { return pread64(fd, b, n, o); }
ssize_t pwrite64(int fd, const void *b, size_t n, off_t o)
{
	init();
	out_gate(fd);
	if (class_gate('w', fd)) return -1;
	if (want_eintr(fd)) { errno = EINTR; return -1; }
	ssize_t r = r_pwrite(fd, b, shorten(n, fd), o);
	logc("pwrite", fd, (long long)o, (long long)n, r);
	if (log_fd >= 0 && o == 0 && r >= 96 && is_out(fd)) {
		char hex[220] = "superhex ";
		for (int i = 0; i < 96; ++i) snprintf(hex + 9 + 2 * i, 3, "%02x", ((const unsigned char *)b)[i]);
		strcat(hex, "\n");
		r_write(log_fd, hex, strlen(hex));
	}
	return r;
}
ssize_t pwrite(int fd, const void *b, size_t n, off_t o) { return pwrite64(fd, b, n, o); }
int ftruncate64(int fd, off_t len)
{
	init();
	out_gate(fd);
	if (class_gate('t', fd)) return -1;
	int r = r_ftruncate(fd, len);
	logc("ftruncate", fd, (long long)len, 0, r);
	return r;
}
int ftruncate(int fd, off_t len) { return ftruncate64(fd, len); }
int fsync(int fd)
{
	init();
	if (class_gate('t', fd)) return -1;
	int r = r_fsync(fd);
	logc("fsync", fd, 0, 0, r);
	return r;
}

static int open_common(int dirfd, const char *path, int flags, mode_t mode, int at)
{
	static int (*r_openat)(int, const char *, int, ...);
	init();
	if (!r_openat) r_openat = dlsym(RTLD_NEXT, "openat64");
	if (fail_class == 'o' && strncmp(path, "/proc/", 6) && strncmp(path, "/etc/", 5) &&
	    strncmp(path, "/usr/", 5) && strncmp(path, "/lib", 4) && strncmp(path, "/sys/", 5)) {
		if (class_gate('o', -1)) return -1;
	}
	int fd = r_openat(at ? dirfd : AT_FDCWD, path, flags, mode);
	if (log_fd >= 0 && fd >= 0 && (flags & (O_WRONLY | O_RDWR))) logc("open", fd, flags, 0, fd);
	return fd;
}
int open(const char *p, int f, ...) { mode_t m = 0; if (f & (O_CREAT | O_TMPFILE)) { va_list a; va_start(a, f); m = va_arg(a, mode_t); va_end(a); } return open_common(0, p, f, m, 0); }
int open64(const char *p, int f, ...) { mode_t m = 0; if (f & (O_CREAT | O_TMPFILE)) { va_list a; va_start(a, f); m = va_arg(a, mode_t); va_end(a); } return open_common(0, p, f, m, 0); }
int openat(int d, const char *p, int f, ...) { mode_t m = 0; if (f & (O_CREAT | O_TMPFILE)) { va_list a; va_start(a, f); m = va_arg(a, mode_t); va_end(a); } return open_common(d, p, f, m, 1); }
int openat64(int d, const char *p, int f, ...) { mode_t m = 0; if (f & (O_CREAT | O_TMPFILE)) { va_list a; va_start(a, f); m = va_arg(a, mode_t); va_end(a); } return open_common(d, p, f, m, 1); }

/* ---- readdir permutation ---- */
#define MAXD 16
static struct { DIR *d; struct dirent **ents; int n, pos; } dirs[MAXD];
static struct dirent *readdir_common(DIR *d)
{
	init();
	if (!readdir_mode[0]) return r_readdir(d);
	int k;
	for (k = 0; k < MAXD; ++k) if (dirs[k].d == d) break;
	if (k == MAXD) {
		for (k = 0; k < MAXD; ++k) if (dirs[k].d == NULL) break;
		if (k == MAXD) return r_readdir(d);
		dirs[k].d = d; dirs[k].n = 0; dirs[k].pos = 0; dirs[k].ents = NULL;
		struct dirent *e;
		unsigned long long h = 1469598103934665603ULL;
		while ((e = r_readdir(d)) != NULL) {
			dirs[k].ents = __libc_realloc(dirs[k].ents, sizeof(void *) * (dirs[k].n + 1));
			dirs[k].ents[dirs[k].n] = __libc_malloc(sizeof(*e));
			memcpy(dirs[k].ents[dirs[k].n], e, sizeof(*e));
			for (const char *c = e->d_name; *c; ++c) h = (h ^ (unsigned char)*c) * 1099511628211ULL;
			dirs[k].n++;
		}
		int n = dirs[k].n;
		/* canonical base order (by name) so that the permutation depends only on the seed and the content */
		for (int i = 0; i < n; ++i) for (int j = i + 1; j < n; ++j)
			if (strcmp(dirs[k].ents[i]->d_name, dirs[k].ents[j]->d_name) > 0) { struct dirent *t = dirs[k].ents[i]; dirs[k].ents[i] = dirs[k].ents[j]; dirs[k].ents[j] = t; }
		if (!strcmp(readdir_mode, "reverse")) {
			for (int i = 0; i < n / 2; ++i) { struct dirent *t = dirs[k].ents[i]; dirs[k].ents[i] = dirs[k].ents[n - 1 - i]; dirs[k].ents[n - 1 - i] = t; }
		} else if (!strncmp(readdir_mode, "file:", 5)) {
			/* explicit order: lines "<absolute directory> name1 name2 ..." ; unlisted names stay behind, sorted */
			char link[64], dpath[4096], line[8192];
			snprintf(link, sizeof link, "/proc/self/fd/%d", dirfd(d));
			ssize_t dl = readlink(link, dpath, sizeof dpath - 1);
			FILE *of = dl > 0 ? fopen(readdir_mode + 5, "r") : NULL;
			if (dl > 0) dpath[dl] = 0;
			while (of && fgets(line, sizeof line, of)) {
				char *tok = strtok(line, " \n");
				if (!tok || strcmp(tok, dpath)) continue;
				int pos = 0;
				while ((tok = strtok(NULL, " \n")) != NULL)
					for (int i = pos; i < n; ++i)
						if (!strcmp(dirs[k].ents[i]->d_name, tok)) {
							struct dirent *t = dirs[k].ents[i];
							for (int j = i; j > pos; --j) dirs[k].ents[j] = dirs[k].ents[j - 1];
							dirs[k].ents[pos++] = t;
							break;
						}
				break;
			}
			if (of) fclose(of);
		} else if (strcmp(readdir_mode, "sorted")) {
			unsigned long long s = (unsigned long long)atol(readdir_mode) * 0x9E3779B97F4A7C15ULL ^ h;
			for (int i = n - 1; i > 0; --i) {
				s = s * 6364136223846793005ULL + 1442695040888963407ULL;
				int j = (int)((s >> 33) % (unsigned)(i + 1));
				struct dirent *t = dirs[k].ents[i]; dirs[k].ents[i] = dirs[k].ents[j]; dirs[k].ents[j] = t;
			}
		}
	}
	if (dirs[k].pos >= dirs[k].n) return NULL;
	return dirs[k].ents[dirs[k].pos++];
}
struct dirent *readdir(DIR *d) { return readdir_common(d); }
struct dirent64 *readdir64(DIR *d) { return (struct dirent64 *)readdir_common(d); }
int closedir(DIR *d)
{
	init();
	for (int k = 0; k < MAXD; ++k) if (dirs[k].d == d) {
		for (int i = 0; i < dirs[k].n; ++i) free(dirs[k].ents[i]);
		free(dirs[k].ents);
		dirs[k].d = NULL; dirs[k].ents = NULL; dirs[k].n = 0;
	}
	return r_closedir(d);
}

/* ---- allocation faults ---- */
static int alloc_gate(void *ra)
{
	if (!inited || !count_allocs) return 0;
	uintptr_t a = (uintptr_t)ra;
	if (a < exe_lo || a >= exe_hi) return 0;
	++n_alloc;
	if (alloc_fail_at && n_alloc == alloc_fail_at) {
		if (getenv("VP_ALLOC_TRACE")) {
			char msg[96];
			int n = snprintf(msg, sizeof msg, "VP_ALLOC_TRACE failing allocation called from +0x%lx\n", (unsigned long)(a - exe_lo));
			r_write(2, msg, n);
		}
		return 1;
	}
	return 0;
}
void *malloc(size_t n) { if (alloc_gate(__builtin_return_address(0))) { errno = ENOMEM; return NULL; } return __libc_malloc(n); }
void *calloc(size_t a, size_t b) { if (alloc_gate(__builtin_return_address(0))) { errno = ENOMEM; return NULL; } return __libc_calloc(a, b); }
void *realloc(void *p, size_t n) { if (alloc_gate(__builtin_return_address(0))) { errno = ENOMEM; return NULL; } return __libc_realloc(p, n); }
char *strdup(const char *s)
{
	if (alloc_gate(__builtin_return_address(0))) { errno = ENOMEM; return NULL; }
	size_t n = strlen(s) + 1; char *p = __libc_malloc(n); if (p) memcpy(p, s, n); return p;
}
char *strndup(const char *s, size_t m)
{
	if (alloc_gate(__builtin_return_address(0))) { errno = ENOMEM; return NULL; }
	size_t n = strnlen(s, m); char *p = __libc_malloc(n + 1); if (p) { memcpy(p, s, n); p[n] = 0; } return p;
}

/* ---- wall clock skew (C02: independence from the time of day) ---- */
#include <time.h>
#include <sys/time.h>
time_t time(time_t *t)
{
	static time_t (*r)(time_t *);
	if (!r) r = dlsym(RTLD_NEXT, "time");
	time_t v = r(NULL) + envl("VP_TIME_OFFSET");
	if (t) *t = v;
	return v;
}
int clock_gettime(clockid_t id, struct timespec *ts)
{
	static int (*r)(clockid_t, struct timespec *);
	if (!r) r = dlsym(RTLD_NEXT, "clock_gettime");
	int rc = r(id, ts);
	if (rc == 0 && id == CLOCK_REALTIME) ts->tv_sec += envl("VP_TIME_OFFSET");
	return rc;
}
int gettimeofday(struct timeval *tv, void *tz)
{
	static int (*r)(struct timeval *, void *);
	if (!r) r = dlsym(RTLD_NEXT, "gettimeofday");
	int rc = r(tv, tz);
	if (rc == 0 && tv) tv->tv_sec += envl("VP_TIME_OFFSET");
	return rc;
}

__attribute__((constructor)) static void ctor(void) { init(); }
__attribute__((destructor)) static void dtor(void)
{
	const char *v = getenv("VP_COUNT_LOG");
	if (v && (n_alloc || n_out || n_class)) { FILE *f = fopen(v, "a"); if (f) { fprintf(f, "%ld %ld %ld\n", n_alloc, n_out, n_class); fclose(f); } }
}
