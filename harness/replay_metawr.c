/* Drives the real metadata writer along a call sequence of spec/MetaWriter.tla and reads everything back through the real
 * metadata reader at the positions get_position() handed out.
 * usage: replay_metawr <scratch file> <keep 0|1> <op> ...     ops: A<cells> F W ; cell = 1024 bytes, odd appends compressible, even ones random
 * Output: blocks (cells per block in file order), infile (blocks in the file before the final flush / write_to_file), per append the
 * block index its position names (-1 = not a block start), the offset in cells, whether the bytes read back there are the appended ones,
 * and whether every stored block is at most as large as its content. */
#include <stdio.h>
#include <stdlib.h>
#include <string.h>
#include "sqfs/meta_writer.h"
#include "sqfs/meta_reader.h"
#include "sqfs/compressor.h"
#include "sqfs/io.h"
#include "sqfs/error.h"

#define CELL 1024
static unsigned long long rng = 88172645463325252ULL;
static unsigned char rnd(void) { rng ^= rng << 13; rng ^= rng >> 7; rng ^= rng << 17; return (unsigned char)(rng >> 24); }

int main(int argc, char **argv)
{
	if (argc < 3) return 2;
	int keep = atoi(argv[2]);
	sqfs_compressor_config_t cfg;
	sqfs_compressor_t *cmp, *ucmp;
	sqfs_file_t *file = NULL;
	sqfs_compressor_config_init(&cfg, SQFS_COMP_GZIP, 8192, 0);
	if (sqfs_compressor_create(&cfg, &cmp)) return 2;
	sqfs_compressor_config_init(&cfg, SQFS_COMP_GZIP, 8192, SQFS_COMP_FLAG_UNCOMPRESS);
	if (sqfs_compressor_create(&cfg, &ucmp)) return 2;
	if (sqfs_file_open(&file, argv[1], SQFS_FILE_OPEN_OVERWRITE)) return 2;
	sqfs_meta_writer_t *mw = sqfs_meta_writer_create(file, cmp, keep ? SQFS_META_WRITER_KEEP_IN_MEMORY : 0);
	if (!mw) return 2;
	static unsigned char *data[64]; static size_t len[64]; static sqfs_u64 pstart[64]; static sqfs_u32 poff[64];
	int na = 0, err = 0;
	for (int a = 3; a < argc && !err; ++a) {
		if (argv[a][0] == 'A') {
			int n = atoi(argv[a] + 1);
			data[na] = malloc((size_t)n * CELL); len[na] = (size_t)n * CELL;
			for (size_t i = 0; i < len[na]; ++i) data[na][i] = (na % 2) ? rnd() : (unsigned char)('a' + na);
			for (int c = 0; c < n; ++c) { data[na][c * CELL] = (unsigned char)na; data[na][c * CELL + 1] = (unsigned char)c; }
			sqfs_meta_writer_get_position(mw, &pstart[na], &poff[na]);
			err = sqfs_meta_writer_append(mw, data[na], len[na]);
			na++;
		} else if (argv[a][0] == 'F') err = sqfs_meta_writer_flush(mw);
		else if (argv[a][0] == 'W') err = sqfs_meta_write_write_to_file(mw);
	}
	if (err) { printf("{\"err\":%d}\n", err); return 0; }
	sqfs_u64 before = file->get_size(file);
	if (sqfs_meta_writer_flush(mw) || sqfs_meta_write_write_to_file(mw)) { printf("{\"err\":-1}\n"); return 0; }
	sqfs_u64 size = file->get_size(file);
	/* walk the block headers */
	static sqfs_u64 boff[256]; static int bcells[256]; int nb = 0, infile = 0, stored_ok = 1;
	sqfs_u64 o = 0;
	static unsigned char raw[8192 + 2], unc[8192];
	while (o + 2 <= size && nb < 256) {
		sqfs_u16 h;
		if (file->read_at(file, o, &h, 2)) break;
		unsigned sz = h & 0x7fff; int comp = !(h & 0x8000);
		if (sz == 0 || sz > 8192 || o + 2 + sz > size) { stored_ok = 0; break; }
		if (file->read_at(file, o + 2, raw, sz)) break;
		int ulen = sz;
		if (comp) { ulen = ucmp->do_block(ucmp, raw, sz, unc, sizeof(unc)); if (ulen <= 0) { stored_ok = 0; break; } if ((unsigned)ulen <= sz) stored_ok = 0; }
		boff[nb] = o; bcells[nb] = ulen % CELL ? -1 : ulen / CELL;
		if (o < before) infile = nb + 1;
		nb++;
		o += 2 + sz;
	}
	if (o != size) stored_ok = 0;
	printf("{\"blocks\":[");
	for (int i = 0; i < nb; ++i) printf("%s%d", i ? "," : "", bcells[i]);
	printf("],\"infile\":%d,\"stored_ok\":%s,\"appends\":[", infile, stored_ok ? "true" : "false");
	sqfs_meta_reader_t *mr = sqfs_meta_reader_create(file, ucmp, 0, size);
	if (!mr) return 2;
	for (int i = 0; i < na; ++i) {
		int blk = -1, ok = 0;
		for (int k = 0; k < nb; ++k) if (boff[k] == pstart[i]) blk = k;
		if (blk < 0 && pstart[i] == size) blk = nb;            /* a position right behind the last block: never handed out before data */
		unsigned char *back = malloc(len[i] ? len[i] : 1);
		if (sqfs_meta_reader_seek(mr, pstart[i], poff[i]) == 0 && sqfs_meta_reader_read(mr, back, len[i]) == 0)
			ok = memcmp(back, data[i], len[i]) == 0;
		free(back);
		printf("%s{\"blk\":%d,\"off\":%u,\"cells\":%s,\"n\":%zu,\"ok\":%s}", i ? "," : "", blk, poff[i] / CELL, poff[i] % CELL ? "false" : "true", len[i] / CELL, ok ? "true" : "false");
	}
	printf("]}\n");
	sqfs_drop(mr); sqfs_drop(mw); sqfs_drop(file); sqfs_drop(cmp); sqfs_drop(ucmp);
	for (int i = 0; i < na; ++i) free(data[i]);
	return 0;
}
