/* C16 / C07 unit-level harness: reads <file> with the real sqfs_istream_open_file + istream_get_line and prints every
 * delivered line as hex.  usage: replay_getline <file> <flags: L R S letters or -> <skip N leading lines in the output> */
#include <stdio.h>
#include <stdlib.h>
#include <string.h>
#include "sqfs/io.h"
#include "sqfs/error.h"
#include "util/parse.h"
int main(int argc, char **argv)
{
	sqfs_istream_t *in = NULL;
	int flags = 0, skip = argc > 3 ? atoi(argv[3]) : 0, n = 0;
	if (argc < 3 || sqfs_istream_open_file(&in, argv[1], 0)) { printf("{\"fatal\":\"open\"}\n"); return 0; }
	if (strchr(argv[2], 'L')) flags |= ISTREAM_LINE_LTRIM;
	if (strchr(argv[2], 'R')) flags |= ISTREAM_LINE_RTRIM;
	if (strchr(argv[2], 'S')) flags |= ISTREAM_LINE_SKIP_EMPTY;
	printf("{\"lines\":[");
	for (;;) {
		char *line = NULL; size_t ln = 0;
		int ret = istream_get_line(in, &line, &ln, flags);
		if (ret != 0) { printf("],\"end\":%d}\n", ret); break; }
		if (n++ >= skip) {
			printf("%s\"", n - 1 > skip ? "," : "");
			for (size_t i = 0; line[i]; ++i) printf("%02x", (unsigned char)line[i]);
			printf("\"");
		}
		free(line);
	}
	sqfs_drop(in);
	return 0;
}
