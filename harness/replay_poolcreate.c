/* thread_pool_create() when the k-th worker thread cannot be started (C09: every call returns): real threads, pthread_create wrapped
 * (-Wl,--wrap=pthread_create) so that call number K fails with EAGAIN.  usage: replay_poolcreate <workers> <failing call K (1-based)>
 * Output: {"created":true|false} - or HANG (exit 3) when create does not return within 10 s. */
#include <stdio.h>
#include <stdlib.h>
#include <errno.h>
#include <unistd.h>
#include <signal.h>
#include <pthread.h>
#include "util/threadpool.h"

static int calls, fail_at;
int __real_pthread_create(pthread_t *t, const pthread_attr_t *a, void *(*fn)(void *), void *arg);
int __wrap_pthread_create(pthread_t *t, const pthread_attr_t *a, void *(*fn)(void *), void *arg)
{
	if (++calls == fail_at) return EAGAIN;
	return __real_pthread_create(t, a, fn, arg);
}
static int work(void *user, void *item) { (void)user; (void)item; return 0; }
static void on_alarm(int s) { (void)s; static const char m[] = "HANG\n"; if (write(1, m, sizeof(m) - 1)) {} _exit(3); }

int main(int argc, char **argv)
{
	if (argc < 3) return 2;
	fail_at = atoi(argv[2]);
	signal(SIGALRM, on_alarm);
	alarm(10);
	thread_pool_t *p = thread_pool_create(atoi(argv[1]), work);
	printf("{\"created\":%s}\n", p ? "true" : "false");
	if (p) {
		/* a pool that came up must still work and go away */
		int x = 1;
		if (p->submit(p, &x) == 0) (void)p->dequeue(p);
		p->destroy(p);
	}
	return 0;
}
