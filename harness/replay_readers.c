/* C10 harness: executes a history of libsquashfs reader calls on one persistent set of reader objects
 * and, after every call, the same call on a freshly created set.  Prints one JSON line per call:
 *   {"i":k,"op":"...","h":[rc,"fnv-of-payload",len],"f":[rc,"...",len]}
 * Ops (one per line of the history file):
 *   M <tbl:0=inode,1=dir> <blockstart> <offset> <n>   meta reader seek + read n bytes
 *   I <ref>                                           dir reader: get inode by reference
 *   D <ref>                                           get inode, open dir, read all entries
 *   P <path>                                          resolve path from the root
 *   R <ref> <offset> <size>                           data reader positional read
 *   B <ref> <index>                                   data reader get_block
 *   F <ref>                                           data reader get_fragment
 *   S <ref>                                           data reader stream, read to the end
 *   X <idx>                                           xattr reader read_all
 *   U <idx>                                           id table index_to_id
 */
#include <stdio.h>
#include <stdlib.h>
#include <string.h>
#include <stdint.h>
#include <zlib.h>
#include "sqfs/meta_reader.h"
#include "sqfs/dir_reader.h"
#include "sqfs/data_reader.h"
#include "sqfs/xattr_reader.h"
#include "sqfs/id_table.h"
#include "sqfs/compressor.h"
#include "sqfs/super.h"
#include "sqfs/inode.h"
#include "sqfs/dir.h"
#include "sqfs/io.h"
#include "sqfs/xattr.h"
#include "sqfs/error.h"

typedef struct {
	sqfs_meta_reader_t *mr[2];
	sqfs_dir_reader_t *dr;
	sqfs_dir_reader_t *drd;		/* created with SQFS_DIR_READER_DOT_ENTRIES: remembers inode number -> reference of every directory it fetched */
	sqfs_data_reader_t *data;
	sqfs_xattr_reader_t *xr;
	sqfs_id_table_t *idtbl;
	sqfs_compressor_t *cmp;
	int ok;
} readers_t;

static sqfs_file_t *file;
static sqfs_super_t super;

static int mk(readers_t *r)
{
	sqfs_compressor_config_t cfg;
	memset(r, 0, sizeof(*r));
	sqfs_compressor_config_init(&cfg, super.compression_id, super.block_size, SQFS_COMP_FLAG_UNCOMPRESS);
	if (sqfs_compressor_create(&cfg, &r->cmp)) return -1;
	r->mr[0] = sqfs_meta_reader_create(file, r->cmp, super.inode_table_start, super.directory_table_start);
	r->mr[1] = sqfs_meta_reader_create(file, r->cmp, super.directory_table_start, super.bytes_used);
	r->dr = sqfs_dir_reader_create(&super, r->cmp, file, 0);
	r->drd = sqfs_dir_reader_create(&super, r->cmp, file, SQFS_DIR_READER_DOT_ENTRIES);
	r->data = sqfs_data_reader_create(file, super.block_size, r->cmp, 0);
	if (!r->mr[0] || !r->mr[1] || !r->dr || !r->drd || !r->data) return -1;
	if (sqfs_data_reader_load_fragment_table(r->data, &super)) { /* damaged image: keep going without */ }
	if (!(super.flags & SQFS_FLAG_NO_XATTRS)) {
		r->xr = sqfs_xattr_reader_create(0);
		if (r->xr && sqfs_xattr_reader_load(r->xr, &super, file, r->cmp)) { sqfs_drop(r->xr); r->xr = NULL; }
	}
	r->idtbl = sqfs_id_table_create(0);
	if (r->idtbl && sqfs_id_table_read(r->idtbl, file, &super, r->cmp)) { sqfs_drop(r->idtbl); r->idtbl = NULL; }
	r->ok = 1;
	return 0;
}

static void rm(readers_t *r)
{
	if (r->mr[0]) sqfs_drop(r->mr[0]);
	if (r->mr[1]) sqfs_drop(r->mr[1]);
	if (r->dr) sqfs_drop(r->dr);
	if (r->drd) sqfs_drop(r->drd);
	if (r->data) sqfs_drop(r->data);
	if (r->xr) sqfs_drop(r->xr);
	if (r->idtbl) sqfs_drop(r->idtbl);
	if (r->cmp) sqfs_drop(r->cmp);
}

typedef struct { uint64_t h; size_t n; unsigned long long pb, po; } acc_t;
static void acc(acc_t *a, const void *p, size_t n)
{
	a->h = crc32((unsigned long)a->h, p, (unsigned)n);
	a->n += n;
}

static int do_op(readers_t *r, const char *line, acc_t *a)
{
	char op = line[0];
	unsigned long long x = 0, y = 0, z = 0, w = 0;
	a->h = 0; a->n = 0; a->pb = a->po = 0;
	sscanf(line + 1, "%llu %llu %llu %llu", &x, &y, &z, &w);
	switch (op) {
	case 'M': {
		if (x > 1 || w > (1 << 20)) return -9999;
		int ret = sqfs_meta_reader_seek(r->mr[x], y, z);
		if (ret) return ret;
		unsigned char *buf = malloc(w ? w : 1);
		ret = sqfs_meta_reader_read(r->mr[x], buf, w);
		if (ret == 0) {
			sqfs_u64 b; size_t o;
			acc(a, buf, w);
			sqfs_meta_reader_get_position(r->mr[x], &b, &o);
			a->pb = b; a->po = o;
		}
		free(buf);
		return ret;
	}
	case 'I': case 'D': {
		sqfs_inode_generic_t *ino = NULL;
		int ret = sqfs_dir_reader_get_inode(r->dr, x, &ino);
		if (ret) return ret;
		acc(a, ino, sizeof(*ino) + ino->payload_bytes_used);
		if (op == 'D') {
			sqfs_dir_reader_state_t st;
			ret = sqfs_dir_reader_open_dir(r->dr, ino, &st, 0);
			if (ret == 0) {
				for (int k = 0; k < 100000; ++k) {
					sqfs_dir_node_t *e = NULL;
					ret = sqfs_dir_reader_read(r->dr, &st, &e);
					if (ret != 0) break;
					acc(a, e, sizeof(*e) + e->size + 1);
					sqfs_free(e);
				}
				if (ret > 0) ret = 0;
			}
		}
		sqfs_free(ino);
		return ret;
	}
	case 'E': {
		/* the "." and ".." entries of a directory fetched by reference through the learning reader: what they point at (an answer may be
		 * refused while the reader has not seen the parent yet; an answer that is GIVEN has to be the one a reader that knows the whole
		 * tree gives) */
		sqfs_inode_generic_t *ino = NULL;
		sqfs_dir_reader_state_t st;
		int ret = sqfs_dir_reader_get_inode(r->drd, x, &ino);
		if (ret) return ret;
		ret = sqfs_dir_reader_open_dir(r->drd, ino, &st, 0);
		for (int k = 0; ret == 0 && k < 2; ++k) {
			sqfs_dir_node_t *e = NULL;
			ret = sqfs_dir_reader_read(r->drd, &st, &e);
			if (ret == 0) { acc(a, e->name, e->size + 1); acc(a, &st.ent_ref, sizeof st.ent_ref); sqfs_free(e); }
		}
		sqfs_free(ino);
		return ret > 0 ? 0 : ret;
	}
	case 'Y': {
		sqfs_u64 ref = 0;
		int ret = sqfs_dir_reader_resolve_inum(r->drd, (sqfs_u32)x, &ref);
		if (ret == 0) acc(a, &ref, sizeof ref);
		return ret;
	}
	case 'P': {
		char path[512];
		sqfs_inode_generic_t *root = NULL;
		sqfs_u64 ref = 0;
		if (sscanf(line + 1, " %511[^\n]", path) != 1) path[0] = 0;
		int ret = sqfs_dir_reader_get_root_inode(r->dr, &root);
		if (ret) return ret;
		ret = sqfs_dir_reader_resolve_path(r->dr, path, root, &ref);
		if (ret == 0) acc(a, &ref, sizeof ref);
		sqfs_free(root);
		return ret;
	}
	case 'R': case 'B': case 'F': case 'S': {
		sqfs_inode_generic_t *ino = NULL;
		int ret = sqfs_dir_reader_get_inode(r->dr, x, &ino);
		if (ret) return ret;
		if (ino->base.type != SQFS_INODE_FILE && ino->base.type != SQFS_INODE_EXT_FILE) { sqfs_free(ino); return -9998; }
		if (op == 'R') {
			if (z > (1 << 22)) z = 1 << 22;
			unsigned char *buf = malloc(z ? z : 1);
			sqfs_s32 n = sqfs_data_reader_read(r->data, ino, y, buf, (sqfs_u32)z);
			if (n > 0) acc(a, buf, n);
			ret = n < 0 ? n : 0;
			free(buf);
		} else if (op == 'B') {
			size_t sz = 0; sqfs_u8 *out = NULL;
			ret = sqfs_data_reader_get_block(r->data, ino, y, &sz, &out);
			if (ret == 0 && out) acc(a, out, sz);
			sqfs_free(out);
		} else if (op == 'F') {
			size_t sz = 0; sqfs_u8 *out = NULL;
			ret = sqfs_data_reader_get_fragment(r->data, ino, &sz, &out);
			if (ret == 0 && out) acc(a, out, sz);
			sqfs_free(out);
		} else {
			sqfs_istream_t *in = NULL;
			ret = sqfs_data_reader_create_stream(r->data, ino, "f", &in);
			if (ret == 0) {
				unsigned char buf[4096];
				for (;;) {
					sqfs_s32 n = sqfs_istream_read(in, buf, sizeof buf);
					if (n < 0) {
						/* a failed read asked again: the stream must not hand out bytes now (-7777 = data after an error) */
						const sqfs_u8 *p2 = NULL; size_t sz2 = 0;
						int r2 = in->get_buffered_data(in, &p2, &sz2, 1);
						ret = (r2 == 0 && sz2 > 0) ? -7777 : n;
						break;
					}
					if (n <= 0) { ret = n; break; }
					acc(a, buf, n);
				}
				sqfs_drop(in);
			}
		}
		sqfs_free(ino);
		return ret;
	}
	case 'X': {
		sqfs_xattr_t *l = NULL;
		if (r->xr == NULL) return -9997;
		int ret = sqfs_xattr_reader_read_all(r->xr, (sqfs_u32)x, &l);
		if (ret) return ret;
		while (l) {
			sqfs_xattr_t *n = l->next;
			acc(a, l->key, strlen(l->key)); acc(a, l->value, l->value_len);
			sqfs_free(l);
			l = n;
		}
		return 0;
	}
	case 'U': {
		sqfs_u32 id = 0;
		if (r->idtbl == NULL) return -9997;
		int ret = sqfs_id_table_index_to_id(r->idtbl, (sqfs_u32)x, &id);
		if (ret == 0) acc(a, &id, sizeof id);
		return ret;
	}
	default:
		return -9999;
	}
}

static void learn_all(sqfs_dir_reader_t *dr, sqfs_u64 ref, int depth)
{
	sqfs_inode_generic_t *ino = NULL;
	sqfs_dir_reader_state_t st;
	if (depth > 64 || sqfs_dir_reader_get_inode(dr, ref, &ino)) return;
	if ((ino->base.type == SQFS_INODE_DIR || ino->base.type == SQFS_INODE_EXT_DIR) &&
	    sqfs_dir_reader_open_dir(dr, ino, &st, SQFS_DIR_OPEN_NO_DOT_ENTRIES) == 0) {
		for (int k = 0; k < 100000; ++k) {
			sqfs_dir_node_t *e = NULL;
			if (sqfs_dir_reader_read(dr, &st, &e) != 0) break;
			if (e->type == SQFS_INODE_DIR) learn_all(dr, st.ent_ref, depth + 1);
			sqfs_free(e);
		}
	}
	sqfs_free(ino);
}

int main(int argc, char **argv)
{
	if (argc < 3) return 2;
	if (sqfs_file_open(&file, argv[1], SQFS_FILE_OPEN_READ_ONLY)) { printf("{\"fatal\":\"open\"}\n"); return 0; }
	if (sqfs_super_read(&super, file)) { printf("{\"fatal\":\"super\"}\n"); return 0; }
	readers_t hist;
	if (mk(&hist)) { printf("{\"fatal\":\"create\"}\n"); return 0; }
	FILE *f = fopen(argv[2], "r");
	char line[1024];
	int i = 0;
	while (f && fgets(line, sizeof line, f)) {
		acc_t a1, a2;
		readers_t fresh;
		size_t l = strlen(line);
		while (l && (line[l - 1] == '\n' || line[l - 1] == '\r')) line[--l] = 0;
		if (!l) continue;
		int r1 = do_op(&hist, line, &a1);
		if (mk(&fresh)) { printf("{\"fatal\":\"create2\"}\n"); return 0; }
		int r2 = do_op(&fresh, line, &a2);
		rm(&fresh);
		if (line[0] == 'E' || line[0] == 'Y') {
			readers_t all;
			acc_t a3;
			if (mk(&all)) { printf("{\"fatal\":\"create3\"}\n"); return 0; }
			learn_all(all.drd, super.root_inode_ref, 0);
			int r3 = do_op(&all, line, &a3);
			rm(&all);
			printf("{\"i\":%d,\"op\":\"%s\",\"learning\":true,\"h\":[%d,%llu,%zu],\"f\":[%d,%llu,%zu],\"o\":[%d,%llu,%zu]}\n", ++i, line,
			       r1, (unsigned long long)(r1 ? 0 : a1.h), r1 ? 0 : a1.n, r2, (unsigned long long)(r2 ? 0 : a2.h), r2 ? 0 : a2.n,
			       r3, (unsigned long long)(r3 ? 0 : a3.h), r3 ? 0 : a3.n);
			continue;
		}
		printf("{\"i\":%d,\"op\":\"%s\",\"h\":[%d,%llu,%zu,%llu,%llu],\"f\":[%d,%llu,%zu,%llu,%llu]}\n", ++i, line,
		       r1, (unsigned long long)(r1 ? 0 : a1.h), r1 ? 0 : a1.n, r1 ? 0 : a1.pb, r1 ? 0 : a1.po,
		       r2, (unsigned long long)(r2 ? 0 : a2.h), r2 ? 0 : a2.n, r2 ? 0 : a2.pb, r2 ? 0 : a2.po);
	}
	rm(&hist);
	sqfs_drop(file);
	printf("{\"end\":true}\n");
	return 0;
}
