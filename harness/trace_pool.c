/* C09 binding T: runs the REAL lib/util/src/threadpool.c on free-running pthreads (no scheduler shim) and records,
 * per execution, one ndjson event per instant: SubCall/SubRet (client), CbStart/CbEnd (workers), DeqCall/DeqRet
 * (client).  The order of the lines is the order of one atomic fetch-and-add, i.e. real time.
 * Executions are separated by {"e":"Reset"}; the file is validated by spec/TracePool.tla.
 * usage: trace_pool <seed> <executions> <maxworkers> <maxtickets> > trace.ndjson
 * A watchdog thread reports {"e":"Hang"} and exits if an execution makes no progress for 20 s. */
#include <stdio.h>
#include <stdlib.h>
#include <string.h>
#include <unistd.h>
#include <sched.h>
#include <time.h>

#include REPO_THREADPOOL_C

#define MAXEV 65536
enum { E_SUBCALL, E_SUBRET, E_CBSTART, E_CBEND, E_DEQCALL, E_DEQRET };
static const char *ename[] = { "SubCall", "SubRet", "CbStart", "CbEnd", "DeqCall", "DeqRet" };
static struct { int e, t, x; } evs[MAXEV];
static int nev;
static volatile long progress;
static int failticket, delaymode;
static unsigned long long rng_s;
static unsigned rnd(unsigned n) { rng_s = rng_s * 6364136223846793005ULL + 1442695040888963407ULL; return (unsigned)(rng_s >> 33) % (n ? n : 1); }

static void ev(int e, int t, int x)
{
	int i = __atomic_fetch_add(&nev, 1, __ATOMIC_SEQ_CST);
	if (i < MAXEV) { evs[i].e = e; evs[i].t = t; evs[i].x = x; }
	__atomic_fetch_add(&progress, 1, __ATOMIC_RELAXED);
}

typedef struct { int ticket; unsigned spin; } item_t;

static int cb(void *user, void *ptr)
{
	item_t *it = ptr;
	ev(E_CBSTART, it->ticket, (int)(long)user);
	volatile unsigned s = 0;
	for (unsigned i = 0; i < it->spin; ++i) s += i;
	if (delaymode == 1 || (it->spin & 3) == 0) sched_yield();
	if (delaymode == 2 && (it->spin & 7) == 1) usleep(50);
	int rc = (it->ticket == failticket) ? 1 : 0;
	ev(E_CBEND, it->ticket, rc);
	return rc;
}

static void *watchdog(void *arg)
{
	(void)arg;
	long last = -1;
	int idle = 0;
	for (;;) {
		sleep(1);
		long p = __atomic_load_n(&progress, __ATOMIC_RELAXED);
		if (p == last) {
			if (++idle >= 20) { printf("{\"e\":\"Hang\"}\n"); fflush(stdout); _exit(3); }
		} else { idle = 0; last = p; }
	}
	return NULL;
}

int main(int argc, char **argv)
{
	if (argc < 5) return 2;
	unsigned long long seed = strtoull(argv[1], NULL, 10);
	int runs = atoi(argv[2]), maxw = atoi(argv[3]), maxn = atoi(argv[4]);
	pthread_t wd;
	pthread_create(&wd, NULL, watchdog, NULL);
	static item_t items[4096];
	for (int r = 0; r < runs; ++r) {
		rng_s = seed * 1000003ULL + r;
		rnd(7);
		int W = 1 + rnd(maxw), N = 1 + rnd(maxn), backlog = 1 + rnd(2 * W + 2);
		failticket = rnd(4) == 0 ? 1 + (int)rnd(N) : 0;
		delaymode = rnd(3);
		nev = 0;
		thread_pool_t *pool = thread_pool_create(W, cb);
		if (pool == NULL) { printf("{\"e\":\"CreateFailed\"}\n"); continue; }
		for (int i = 0; i < W; ++i) pool->set_worker_ptr(pool, i, (void *)(long)(i + 1));
		int sub = 0, ret = 0, failed = 0;
		while (ret < sub || (sub < N && !failed)) {
			int can_sub = sub < N && !failed && (sub - ret) < backlog;
			if (can_sub && (sub == ret || rnd(3) != 0)) {
				int t = sub + 1;
				items[t].ticket = t;
				items[t].spin = rnd(2000);
				ev(E_SUBCALL, t, 0);
				int rc = pool->submit(pool, &items[t]);
				ev(E_SUBRET, t, rc);
				if (rc == 0) sub++; else failed = 1;
			} else {
				ev(E_DEQCALL, 0, 0);
				item_t *it = pool->dequeue(pool);
				ev(E_DEQRET, it ? it->ticket : 0, 0);
				if (it == NULL) { failed = 1; break; }
				ret++;
			}
		}
		int st = pool->get_status(pool);
		pool->destroy(pool);
		printf("{\"e\":\"Reset\",\"w\":%d,\"n\":%d,\"backlog\":%d,\"fail\":%d,\"status\":%d}\n", W, N, backlog, failticket, st);
		int n = nev < MAXEV ? nev : MAXEV;
		for (int i = 0; i < n; ++i) {
			if (evs[i].e == E_SUBRET || evs[i].e == E_CBEND)
				printf("{\"e\":\"%s\",\"t\":%d,\"rc\":%d}\n", ename[evs[i].e], evs[i].t, evs[i].x);
			else
				printf("{\"e\":\"%s\",\"t\":%d}\n", ename[evs[i].e], evs[i].t);
		}
	}
	printf("{\"e\":\"Reset\",\"w\":0,\"n\":0,\"backlog\":0,\"fail\":0,\"status\":0}\n");
	fflush(stdout);
	return 0;
}
