/* C15 harness for the stream (de)compression wrappers of lib/xfrm.
 *  replay_xfrm script <policy> <n1> <n2> ...     ostream_xfrm over a memory sink with a SCRIPTED codec that obeys the
 *        process_data contract (policy eager|withhold|half, unit = 131072 bytes = half an input buffer);
 *        appends chunks of n_i units, then flushes.   prints {"sink":bytes,"trailers":k,"ok":payload intact}
 *  replay_xfrm real <codec> <bytes> <zero|text|random> <chunk> <outfile>
 *        ostream_xfrm with the REAL codec; the compressed stream is written to <outfile>, the input to <outfile>.in
 *  replay_xfrm unpack <codec> <infile> <outfile>  istream_xfrm with the real decompressor; exit 0 + decoded bytes, or
 *        prints {"error":code}
 * A watchdog (alarm) turns a non-terminating wrapper loop into {"hang":true}. */
#include <stdio.h>
#include <stdlib.h>
#include <string.h>
#include <signal.h>
#include <unistd.h>
#include <zlib.h>
#include "sqfs/io.h"
#include "sqfs/error.h"
#include "xfrm/stream.h"
#include "xfrm/compress.h"
#include "xfrm/wrap.h"

#ifndef UNIT
#define UNIT 131072
#endif
typedef struct { sqfs_ostream_t base; unsigned char *d; size_t n; } memsink_t;
static int ms_append(sqfs_ostream_t *s, const void *data, size_t size)
{
	memsink_t *m = (memsink_t *)s;
	m->d = realloc(m->d, m->n + size + 1);
	if (data) memcpy(m->d + m->n, data, size); else memset(m->d + m->n, 0, size);
	m->n += size;
	return 0;
}
static int ms_flush(sqfs_ostream_t *s) { (void)s; return 0; }
static const char *ms_name(sqfs_ostream_t *s) { (void)s; return "sink"; }
static void ms_destroy(sqfs_object_t *o) { free(((memsink_t *)o)->d); free(o); }
static memsink_t *memsink(void)
{
	memsink_t *m = calloc(1, sizeof(*m));
	m->base.base.refcount = 1; m->base.base.destroy = ms_destroy;
	m->base.append = ms_append; m->base.flush = ms_flush; m->base.get_filename = ms_name;
	return m;
}

/* scripted codec: identity payload, "TRL!" trailer at the end of the stream, output withheld per policy */
typedef struct { xfrm_stream_t base; int policy; unsigned char *held; size_t nheld; int trailers; } scodec_t;
static void sc_destroy(sqfs_object_t *o) { free(((scodec_t *)o)->held); free(o); }
static int sc_process(xfrm_stream_t *s, const void *in, sqfs_u32 in_size, void *out, sqfs_u32 out_size,
		      sqfs_u32 *in_read, sqfs_u32 *out_written, int mode)
{
	scodec_t *c = (scodec_t *)s;
	int full = mode == XFRM_STREAM_FLUSH_FULL;
	c->held = realloc(c->held, c->nheld + in_size + 8);
	memcpy(c->held + c->nheld, in, in_size);
	c->nheld += in_size; *in_read += in_size;
	size_t want = c->policy == 0 ? c->nheld : c->policy == 1 ? (full ? c->nheld : 0) : (full ? c->nheld : (c->nheld + 1) / 2);
	size_t o = want < out_size ? want : out_size;
	memcpy(out, c->held, o);
	memmove(c->held, c->held + o, c->nheld - o);
	c->nheld -= o; *out_written += o;
	if (full && c->nheld == 0) {
		if (out_size - o < 4) return XFRM_STREAM_OK;     /* no room for the trailer yet: call again */
		memcpy((char *)out + o, "TRL!", 4); *out_written += 4; c->trailers++;
		return XFRM_STREAM_END;
	}
	return XFRM_STREAM_OK;
}

static void on_alarm(int sig) { (void)sig; static const char m[] = "{\"hang\":true}\n"; write(1, m, sizeof m - 1); _exit(0); }

static void fill(unsigned char *b, size_t n, const char *kind)
{
	unsigned long long s = 88172645463325252ULL;
	for (size_t i = 0; i < n; ++i) {
		if (!strcmp(kind, "zero")) b[i] = 0;
		else if (!strcmp(kind, "text")) b[i] = "squashfs tools ng\n"[i % 18];
		else { s ^= s << 13; s ^= s >> 7; s ^= s << 17; b[i] = (unsigned char)(s >> 24); }
	}
}

int main(int argc, char **argv)
{
	signal(SIGALRM, on_alarm);
	alarm(20);
	if (argc >= 3 && !strcmp(argv[1], "script")) {
		scodec_t *c = calloc(1, sizeof(*c));
		c->base.base.refcount = 1; c->base.base.destroy = sc_destroy; c->base.process_data = sc_process;
		c->policy = !strcmp(argv[2], "eager") ? 0 : !strcmp(argv[2], "withhold") ? 1 : 2;
		memsink_t *sink = memsink();
		sqfs_ostream_t *o = ostream_xfrm_create((sqfs_ostream_t *)sink, (xfrm_stream_t *)c);
		size_t total = 0; unsigned long crc_in = crc32(0, NULL, 0);
		for (int i = 3; i < argc; ++i) {
			size_t n = (size_t)atoi(argv[i]) * UNIT;
			unsigned char *b = malloc(n + 1);
			for (size_t k = 0; k < n; ++k) b[k] = (unsigned char)((total + k) * 2654435761u >> 13);
			crc_in = crc32(crc_in, b, n);
			if (o->append(o, b, n)) { printf("{\"error\":\"append\"}\n"); return 0; }
			total += n; free(b);
		}
		if (o->flush(o)) { printf("{\"error\":\"flush\"}\n"); return 0; }
		int trailers = c->trailers;
		size_t payload = sink->n >= 4u * trailers ? sink->n - 4u * trailers : 0;
		int ok = payload == total && crc32(crc32(0, NULL, 0), sink->d, payload) == crc_in;
		printf("{\"sink\":%zu,\"trailers\":%d,\"ok\":%s,\"input\":%zu}\n", sink->n, trailers, ok ? "true" : "false", total);
		return 0;
	}
	if (argc >= 7 && !strcmp(argv[1], "real")) {
		int id = xfrm_compressor_id_from_name(argv[2]);
		size_t n = strtoul(argv[3], NULL, 10), chunk = strtoul(argv[5], NULL, 10);
		if (id <= 0) { printf("{\"skip\":true}\n"); return 0; }
		xfrm_stream_t *x = compressor_stream_create(id, NULL);
		if (x == NULL) { printf("{\"skip\":true}\n"); return 0; }
		memsink_t *sink = memsink();
		sqfs_ostream_t *o = ostream_xfrm_create((sqfs_ostream_t *)sink, x);
		unsigned char *b = malloc(n + 1);
		fill(b, n, argv[4]);
		for (size_t off = 0; off < n; off += chunk)
			if (o->append(o, b + off, n - off < chunk ? n - off : chunk)) { printf("{\"error\":\"append\"}\n"); return 0; }
		if (o->flush(o)) { printf("{\"error\":\"flush\"}\n"); return 0; }
		FILE *f = fopen(argv[6], "wb"); fwrite(sink->d, 1, sink->n, f); fclose(f);
		char p[4096]; snprintf(p, sizeof p, "%s.in", argv[6]);
		f = fopen(p, "wb"); fwrite(b, 1, n, f); fclose(f);
		printf("{\"compressed\":%zu,\"input\":%zu}\n", sink->n, n);
		return 0;
	}
	if (argc >= 5 && !strcmp(argv[1], "unpack")) {
		int id = xfrm_compressor_id_from_name(argv[2]);
		sqfs_istream_t *raw = NULL;
		if (id <= 0 || sqfs_istream_open_file(&raw, argv[3], 0)) { printf("{\"skip\":true}\n"); return 0; }
		sqfs_istream_t *in = istream_xfrm_create(raw, decompressor_stream_create(id));
		FILE *f = fopen(argv[4], "wb");
		static unsigned char buf[65536];
		size_t total = 0;
		for (;;) {
			sqfs_s32 r = sqfs_istream_read(in, buf, sizeof buf);
			if (r < 0) { printf("{\"error\":%d,\"decoded\":%zu}\n", r, total); fclose(f); return 0; }
			if (r == 0) break;
			fwrite(buf, 1, r, f); total += r;
		}
		fclose(f);
		printf("{\"decoded\":%zu}\n", total);
		return 0;
	}
	return 2;
}
