/* Replays programs emitted from spec/TableLoad.tla on ONE real reader object: loads of hostile / good images into the same
 * object, queries in between, then the destructor.  Run under ASan + LSan: the memory errors are the sanitizer's verdict,
 * the answers (ok / err per operation) are printed as one JSON line.
 * usage: replay_tableload <xattr|idtable|fragtable|datareader> <prog> <class>=<image> ...
 *   prog = comma separated: L<class> | Q          e.g.  Lok,Q,Llist_cut,Q,Lok,Q */
#include <stdio.h>
#include <stdlib.h>
#include <string.h>
#include "sqfs/xattr_reader.h"
#include "sqfs/xattr.h"
#include "sqfs/id_table.h"
#include "sqfs/frag_table.h"
#include "sqfs/block.h"
#include "sqfs/data_reader.h"
#include "sqfs/compressor.h"
#include "sqfs/inode.h"
#include "sqfs/super.h"
#include "sqfs/io.h"
#include "sqfs/error.h"

#define MAXC 16
static struct { char name[32]; sqfs_file_t *file; sqfs_super_t super; } cls[MAXC];
static int ncls;

/* a file object that forwards to whichever image is selected: the data reader is bound to its file at creation */
typedef struct { sqfs_file_t base; sqfs_file_t *cur; } sw_file_t;
static int sw_read_at(sqfs_file_t *f, sqfs_u64 off, void *buf, size_t size)
{ sw_file_t *s = (sw_file_t *)f; return s->cur->read_at(s->cur, off, buf, size); }
static int sw_write_at(sqfs_file_t *f, sqfs_u64 off, const void *buf, size_t size)
{ (void)f; (void)off; (void)buf; (void)size; return SQFS_ERROR_IO; }
static sqfs_u64 sw_get_size(const sqfs_file_t *f)
{ const sw_file_t *s = (const sw_file_t *)f; return s->cur->get_size(s->cur); }
static int sw_truncate(sqfs_file_t *f, sqfs_u64 size) { (void)f; (void)size; return SQFS_ERROR_IO; }
static const char *sw_name(sqfs_file_t *f) { (void)f; return "switch"; }
static void sw_destroy(sqfs_object_t *o) { free(o); }

static int find(const char *name)
{
	int i;
	for (i = 0; i < ncls; ++i)
		if (!strcmp(cls[i].name, name)) return i;
	return -1;
}

int main(int argc, char **argv)
{
	sqfs_compressor_config_t cfg;
	sqfs_compressor_t *cmp = NULL;
	sqfs_xattr_reader_t *xr = NULL;
	sqfs_id_table_t *idt = NULL;
	sqfs_frag_table_t *ft = NULL;
	sqfs_data_reader_t *dr = NULL;
	sw_file_t *sw = NULL;
	const char *kind;
	char *prog, *tok;
	int i, first = 1;

	if (argc < 4) return 2;
	kind = argv[1];
	for (i = 3; i < argc && ncls < MAXC; ++i) {
		char *eq = strchr(argv[i], '=');
		if (!eq) return 2;
		*eq = 0;
		snprintf(cls[ncls].name, sizeof(cls[ncls].name), "%s", argv[i]);
		if (sqfs_file_open(&cls[ncls].file, eq + 1, SQFS_FILE_OPEN_READ_ONLY)) { fprintf(stderr, "open %s\n", eq + 1); return 2; }
		if (sqfs_super_read(&cls[ncls].super, cls[ncls].file)) { fprintf(stderr, "super %s\n", eq + 1); return 2; }
		ncls++;
	}
	i = find("ok");
	if (i < 0) return 2;
	sqfs_compressor_config_init(&cfg, cls[i].super.compression_id, cls[i].super.block_size, SQFS_COMP_FLAG_UNCOMPRESS);
	if (sqfs_compressor_create(&cfg, &cmp)) return 2;

	if (!strcmp(kind, "xattr")) xr = sqfs_xattr_reader_create(0);
	else if (!strcmp(kind, "idtable")) idt = sqfs_id_table_create(0);
	else if (!strcmp(kind, "fragtable")) ft = sqfs_frag_table_create(0);
	else if (!strcmp(kind, "datareader")) {
		sw = calloc(1, sizeof(*sw));
		if (!sw) return 2;
		sqfs_object_init(sw, sw_destroy, NULL);
		sw->base.read_at = sw_read_at; sw->base.write_at = sw_write_at; sw->base.get_size = sw_get_size;
		sw->base.truncate = sw_truncate; sw->base.get_filename = sw_name;
		sw->cur = cls[i].file;
		dr = sqfs_data_reader_create((sqfs_file_t *)sw, cls[i].super.block_size, cmp, 0);
	} else return 2;
	if (!xr && !idt && !ft && !dr) return 2;

	printf("{\"answers\":[");
	prog = strdup(argv[2]);
	for (tok = strtok(prog, ","); tok; tok = strtok(NULL, ",")) {
		int r = 0;
		if (tok[0] == 'L') {
			int c = find(tok + 1);
			if (c < 0) { fprintf(stderr, "class %s\n", tok + 1); return 2; }
			if (xr) r = sqfs_xattr_reader_load(xr, &cls[c].super, cls[c].file, cmp);
			if (idt) r = sqfs_id_table_read(idt, cls[c].file, &cls[c].super, cmp);
			if (ft) r = sqfs_frag_table_read(ft, cls[c].file, &cls[c].super, cmp);
			if (dr) { sw->cur = cls[c].file; r = sqfs_data_reader_load_fragment_table(dr, &cls[c].super); }
		} else {
			if (xr) { sqfs_xattr_t *l = NULL; r = sqfs_xattr_reader_read_all(xr, 0, &l); if (!r && l == NULL) r = 1; sqfs_xattr_list_free(l); }
			if (idt) { sqfs_u32 id; r = sqfs_id_table_index_to_id(idt, 0, &id); }
			if (ft) { sqfs_fragment_t e; r = sqfs_frag_table_lookup(ft, 0, &e); }
			if (dr) {
				sqfs_inode_generic_t ino;
				sqfs_u8 *out = NULL;
				size_t sz = 0;
				memset(&ino, 0, sizeof(ino));
				ino.base.type = SQFS_INODE_FILE;
				ino.data.file.file_size = 3;
				ino.data.file.fragment_index = 0;
				ino.data.file.fragment_offset = 0;
				r = sqfs_data_reader_get_fragment(dr, &ino, &sz, &out);
				free(out);
			}
		}
		printf("%s\"%s\"", first ? "" : ",", r == 0 ? "ok" : (r == 1 ? "empty" : "err"));
		first = 0;
	}
	printf("]}\n");
	fflush(stdout);
	free(prog);
	if (xr) sqfs_drop(xr);
	if (idt) sqfs_drop(idt);
	if (ft) sqfs_drop(ft);
	if (dr) sqfs_drop(dr);
	if (sw) sqfs_drop(sw);
	sqfs_drop(cmp);
	for (i = 0; i < ncls; ++i) sqfs_drop(cls[i].file);
	return 0;
}
