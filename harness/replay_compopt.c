/* read_options of the real compressors on a given option record (spec/CompOpts.tla, reader side).
 * usage: replay_compopt <gzip|xz|lzma|zstd|lz4> <block size> <hex bytes placed at offset 96> <scratch file>
 * Output: {"create":rc,"read":rc,"level":..,"window":..,"flags":..,"dict":..} (configuration after read_options) */
#include <stdio.h>
#include <stdlib.h>
#include <string.h>
#include "sqfs/compressor.h"
#include "sqfs/io.h"
#include "sqfs/super.h"
#include "sqfs/error.h"

int main(int argc, char **argv)
{
	if (argc < 5) return 2;
	int id = sqfs_compressor_id_from_name(argv[1]);
	size_t bs = strtoul(argv[2], NULL, 10);
	const char *hex = argv[3];
	size_t n = strlen(hex) / 2;
	/* 16 KiB of image behind the record: a reader that believes a larger size in the header finds bytes to read */
	size_t tail = 16384;
	unsigned char *buf = calloc(1, 96 + n + tail + 1);
	memset(buf + 96 + n, 0xAA, tail);
	for (size_t i = 0; i < n; ++i) { unsigned v; sscanf(hex + 2 * i, "%2x", &v); buf[96 + i] = (unsigned char)v; }
	FILE *f = fopen(argv[4], "wb");
	if (!f || fwrite(buf, 1, 96 + n + tail, f) != 96 + n + tail) return 2;
	fclose(f);
	free(buf);
	sqfs_file_t *file = NULL;
	if (sqfs_file_open(&file, argv[4], SQFS_FILE_OPEN_READ_ONLY)) return 2;
	sqfs_compressor_config_t cfg, got;
	sqfs_compressor_t *cmp = NULL;
	if (sqfs_compressor_config_init(&cfg, id, bs, SQFS_COMP_FLAG_UNCOMPRESS)) return 2;
	int crc = sqfs_compressor_create(&cfg, &cmp);
	if (crc) { printf("{\"create\":%d}\n", crc); sqfs_drop(file); return 0; }
	int rrc = cmp->read_options(cmp, file);
	memset(&got, 0, sizeof(got));
	cmp->get_configuration(cmp, &got);
	printf("{\"create\":0,\"read\":%d,\"level\":%u,\"window\":%u,\"flags\":%u,\"dict\":%u}\n", rrc, (unsigned)got.level,
	       id == SQFS_COMP_GZIP ? (unsigned)got.opt.gzip.window_size : 0u, (unsigned)(got.flags & ~SQFS_COMP_FLAG_UNCOMPRESS),
	       id == SQFS_COMP_XZ ? (unsigned)got.opt.xz.dict_size : 0u);
	sqfs_drop(cmp);
	sqfs_drop(file);
	return 0;
}
