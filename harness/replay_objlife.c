/* C19 harness: executes a history (from TLC behaviours of spec/ObjLife.tla) of create / mutate / query /
 * copy / grab / drop on real libsquashfs objects of one kind.  Built with ASan + LSan: a crash, a
 * use-after-free, a double free or a leak makes the process fail.  For every query the answer of the
 * object is compared with the answer of a FRESH object of the same kind to which exactly the mutations
 * the specification says are visible (own + inherited at copy time) were applied.
 * usage: replay_objlife <kind> <image> <history>      prints one JSON line per op. */
#include <stdio.h>
#include <stdlib.h>
#include <string.h>
#include <stdint.h>
#include <zlib.h>
#include "sqfs/meta_reader.h"
#include "sqfs/dir_reader.h"
#include "sqfs/data_reader.h"
#include "sqfs/xattr_reader.h"
#include "sqfs/xattr_writer.h"
#include "sqfs/id_table.h"
#include "sqfs/frag_table.h"
#include "sqfs/compressor.h"
#include "sqfs/super.h"
#include "sqfs/inode.h"
#include "sqfs/dir.h"
#include "sqfs/io.h"
#include "sqfs/xattr.h"
#include "sqfs/error.h"
#include "sqfs/block.h"

#define MAXO 8
#define MAXM 16
static sqfs_file_t *file;           /* shared resource 1 */
static sqfs_compressor_t *cmp;      /* shared resource 2 */
static sqfs_super_t super;
static const char *kind, *image;
static sqfs_u8 sample[4096], packed[8192];
static sqfs_s32 packed_len;
static int comp_id, comp_unc;

/* ---- in-memory sqfs_file_t for the xattr writer's flush ---- */
typedef struct { sqfs_file_t base; unsigned char *d; size_t n; } memfile_t;
static int mf_read(sqfs_file_t *f, sqfs_u64 off, void *b, size_t s) { memfile_t *m = (memfile_t *)f; if (off + s > m->n) return SQFS_ERROR_OUT_OF_BOUNDS; memcpy(b, m->d + off, s); return 0; }
static int mf_write(sqfs_file_t *f, sqfs_u64 off, const void *b, size_t s) { memfile_t *m = (memfile_t *)f; if (off + s > m->n) { m->d = realloc(m->d, off + s); memset(m->d + m->n, 0, off + s - m->n); m->n = off + s; } memcpy(m->d + off, b, s); return 0; }
static sqfs_u64 mf_size(const sqfs_file_t *f) { return ((const memfile_t *)f)->n; }
static int mf_trunc(sqfs_file_t *f, sqfs_u64 s) { memfile_t *m = (memfile_t *)f; m->d = realloc(m->d, s ? s : 1); if (s > m->n) memset(m->d + m->n, 0, s - m->n); m->n = s; return 0; }
static const char *mf_name(sqfs_file_t *f) { (void)f; return "mem"; }
static void mf_destroy(sqfs_object_t *o) { free(((memfile_t *)o)->d); free(o); }
static sqfs_file_t *memfile(void)
{
	memfile_t *m = calloc(1, sizeof(*m));
	m->base.base.refcount = 1; m->base.base.destroy = mf_destroy;
	m->base.read_at = mf_read; m->base.write_at = mf_write; m->base.get_size = mf_size;
	m->base.truncate = mf_trunc; m->base.get_filename = mf_name;
	return (sqfs_file_t *)m;
}

static int comp_variant;       /* 0: default options; 1, 2: non-default options (kinds comp_<name>_o / _p): a copy must keep them */
static sqfs_compressor_t *mkcomp(int id, int unc)
{
	sqfs_compressor_config_t cfg;
	sqfs_compressor_t *c = NULL;
	if (sqfs_compressor_config_init(&cfg, id, 4096, unc ? SQFS_COMP_FLAG_UNCOMPRESS : 0)) return NULL;
	if (comp_variant && !unc && id == comp_id) {
		int v = comp_variant;
		if (id == SQFS_COMP_GZIP) { cfg.opt.gzip.window_size = v == 1 ? 9 : 12; cfg.level = v == 1 ? 2 : 6; cfg.flags |= v == 1 ? 0 : (SQFS_COMP_FLAG_GZIP_DEFAULT | SQFS_COMP_FLAG_GZIP_HUFFMAN | SQFS_COMP_FLAG_GZIP_RLE); }
		else if (id == SQFS_COMP_XZ) { cfg.opt.xz.dict_size = 8192; cfg.opt.xz.lc = v == 1 ? 1 : 0; cfg.opt.xz.lp = v == 1 ? 1 : 2; cfg.opt.xz.pb = 1; cfg.level = v == 1 ? 1 : 3; cfg.flags |= v == 1 ? 0 : (SQFS_COMP_FLAG_XZ_X86 | SQFS_COMP_FLAG_XZ_EXTREME); }
		else if (id == SQFS_COMP_LZMA) { cfg.opt.lzma.dict_size = 8192; cfg.opt.lzma.lc = 1; cfg.opt.lzma.lp = v == 1 ? 1 : 0; cfg.opt.lzma.pb = v == 1 ? 0 : 1; cfg.level = v == 1 ? 1 : 8; }
		else if (id == SQFS_COMP_LZ4) { cfg.flags |= SQFS_COMP_FLAG_LZ4_HC; }
		else if (id == SQFS_COMP_ZSTD) { cfg.level = v == 1 ? 1 : 19; }
	}
	if (sqfs_compressor_create(&cfg, &c)) return NULL;
	return c;
}

static void *k_create(void)
{
	if (!strncmp(kind, "comp", 4)) return mkcomp(comp_id, comp_unc);
	if (!strcmp(kind, "idtable")) return sqfs_id_table_create(0);
	if (!strcmp(kind, "fragtable")) return sqfs_frag_table_create(0);
	if (!strcmp(kind, "metareader")) return sqfs_meta_reader_create(file, cmp, super.inode_table_start, super.directory_table_start);
	if (!strcmp(kind, "dirreader")) return sqfs_dir_reader_create(&super, cmp, file, 0);
	if (!strcmp(kind, "dirreader_dot")) return sqfs_dir_reader_create(&super, cmp, file, SQFS_DIR_READER_DOT_ENTRIES);
	if (!strcmp(kind, "datareader")) {
		sqfs_data_reader_t *d = sqfs_data_reader_create(file, super.block_size, cmp, 0);
		if (d && sqfs_data_reader_load_fragment_table(d, &super)) { sqfs_drop(d); return NULL; }
		return d;
	}
	if (!strcmp(kind, "xattrreader")) {
		sqfs_xattr_reader_t *x = sqfs_xattr_reader_create(0);
		if (x && sqfs_xattr_reader_load(x, &super, file, cmp)) { sqfs_drop(x); return NULL; }
		return x;
	}
	if (!strcmp(kind, "file")) { sqfs_file_t *f = NULL; if (sqfs_file_open(&f, image, SQFS_FILE_OPEN_READ_ONLY)) return NULL; return f; }
	if (!strcmp(kind, "xattrwriter")) return sqfs_xattr_writer_create(0);
	return NULL;
}

static sqfs_inode_generic_t *nth_file(sqfs_dir_reader_t *dr, int n)
{
	sqfs_inode_generic_t *root = NULL, *ino = NULL;
	sqfs_dir_reader_state_t st;
	if (sqfs_dir_reader_get_root_inode(dr, &root)) return NULL;
	if (sqfs_dir_reader_open_dir(dr, root, &st, 0)) { sqfs_free(root); return NULL; }
	for (int k = 0; k < 64; ++k) {
		sqfs_dir_node_t *e = NULL;
		if (sqfs_dir_reader_read(dr, &st, &e) != 0) break;
		if (e->type == SQFS_INODE_FILE && n-- == 0) {
			sqfs_u64 ref;
			/* inode reference of the current entry */
			ref = st.ent_ref;
			sqfs_free(e);
			sqfs_dir_reader_get_inode(dr, ref, &ino);
			break;
		}
		sqfs_free(e);
	}
	sqfs_free(root);
	return ino;
}

/* depth-limited walk over the directories of the image through the reader under test: every directory inode is fetched with
 * get_inode (a reader with dot entries remembers inode number -> reference for each of them) */
static void walk_dirs(sqfs_dir_reader_t *dr, sqfs_u64 ref, int depth, int *budget)
{
	sqfs_inode_generic_t *ino = NULL;
	sqfs_dir_reader_state_t st;
	if (*budget <= 0 || sqfs_dir_reader_get_inode(dr, ref, &ino)) return;
	(*budget)--;
	if ((ino->base.type == SQFS_INODE_DIR || ino->base.type == SQFS_INODE_EXT_DIR) && depth > 0 &&
	    sqfs_dir_reader_open_dir(dr, ino, &st, SQFS_DIR_OPEN_NO_DOT_ENTRIES) == 0) {
		for (int k = 0; k < 4000; ++k) {
			sqfs_dir_node_t *e = NULL;
			if (sqfs_dir_reader_read(dr, &st, &e) != 0) break;
			if (e->type == SQFS_INODE_DIR) walk_dirs(dr, st.ent_ref, depth - 1, budget);
			sqfs_free(e);
		}
	}
	sqfs_free(ino);
}

static void k_mut(void *o, int a, int pos)
{
	if (!strncmp(kind, "comp", 4)) {
		sqfs_u8 in[512], out[1024];
		memset(in, a, sizeof in); in[pos % 512] ^= 0x55;
		((sqfs_compressor_t *)o)->do_block(o, comp_unc ? packed : in, comp_unc ? (sqfs_u32)packed_len : sizeof in, out, sizeof out);
	} else if (!strcmp(kind, "idtable")) {
		sqfs_u16 idx; sqfs_id_table_id_to_index(o, 1000 * a + pos, &idx);
	} else if (!strcmp(kind, "fragtable")) {
		sqfs_u32 idx; sqfs_frag_table_append(o, 1000 * a + pos, a + pos, &idx);
	} else if (!strcmp(kind, "metareader")) {
		char b[8]; if (sqfs_meta_reader_seek(o, super.inode_table_start, a * 10 + pos) == 0) sqfs_meta_reader_read(o, b, 8);
	} else if (!strncmp(kind, "dirreader", 9)) {
		int budget = 40 * a + 10 * pos;
		sqfs_inode_generic_t *f = nth_file(o, a - 1); sqfs_free(f);
		walk_dirs(o, super.root_inode_ref, a + 1, &budget);
	} else if (!strcmp(kind, "datareader")) {
		sqfs_dir_reader_t *dr = sqfs_dir_reader_create(&super, cmp, file, 0);
		sqfs_inode_generic_t *f = nth_file(dr, a - 1);
		char buf[300];
		if (f) { sqfs_data_reader_read(o, f, 10 * pos, buf, sizeof buf); sqfs_data_reader_read(o, f, 5000, buf, sizeof buf); }
		sqfs_free(f); sqfs_drop(dr);
	} else if (!strcmp(kind, "xattrreader")) {
		sqfs_xattr_t *l = NULL;
		if (sqfs_xattr_reader_read_all(o, a - 1, &l) == 0) while (l) { sqfs_xattr_t *n = l->next; sqfs_free(l); l = n; }
	} else if (!strcmp(kind, "file")) {
		char b[50]; ((sqfs_file_t *)o)->read_at(o, a * 100 + pos, b, sizeof b);
	} else if (!strcmp(kind, "xattrwriter")) {
		char key[32], val[16]; sqfs_u32 id;
		snprintf(key, sizeof key, "user.k%d_%d", a, pos); snprintf(val, sizeof val, "v%d", a * 7 + pos);
		/* every set has a key of its own (so the sets are distinct) and shares one LONG value with all the others: what is stored once and
		 * referenced afterwards depends on the reference counts the writer keeps per value */
		if (sqfs_xattr_writer_begin(o, 0) == 0) { sqfs_xattr_writer_add_kv(o, key, val, strlen(val)); sqfs_xattr_writer_add_kv(o, "user.common", "x", 1);
			sqfs_xattr_writer_add_kv(o, "user.shared", "a long value shared by every set", 32); sqfs_xattr_writer_end(o, &id); }
	}
}

static unsigned long k_query(void *o)
{
	unsigned long c = crc32(0, NULL, 0);
	if (!strncmp(kind, "comp", 4)) {
		sqfs_u8 out[8192];
		sqfs_s32 r = ((sqfs_compressor_t *)o)->do_block(o, comp_unc ? packed : sample, comp_unc ? (sqfs_u32)packed_len : sizeof sample, out, sizeof out);
		c = crc32(c, (void *)&r, sizeof r);
		if (r > 0) c = crc32(c, out, r);
		sqfs_compressor_config_t cfg;
		memset(&cfg, 0, sizeof cfg);
		((sqfs_compressor_t *)o)->get_configuration(o, &cfg);
		c = crc32(c, (void *)&cfg.id, sizeof cfg.id); c = crc32(c, (void *)&cfg.flags, sizeof cfg.flags);
		c = crc32(c, (void *)&cfg.block_size, sizeof cfg.block_size); c = crc32(c, (void *)&cfg.level, sizeof cfg.level);
		c = crc32(c, (void *)&cfg.opt, sizeof cfg.opt);
	} else if (!strcmp(kind, "idtable")) {
		for (sqfs_u16 i = 0; i < 64; ++i) { sqfs_u32 id; int r = sqfs_id_table_index_to_id(o, i, &id); c = crc32(c, (void *)&r, sizeof r); if (r) break; c = crc32(c, (void *)&id, sizeof id); }
	} else if (!strcmp(kind, "fragtable")) {
		size_t n = sqfs_frag_table_get_size(o);
		c = crc32(c, (void *)&n, sizeof n);
		for (size_t i = 0; i < n; ++i) { sqfs_fragment_t f; if (sqfs_frag_table_lookup(o, i, &f) == 0) c = crc32(c, (void *)&f, sizeof f); }
	} else if (!strcmp(kind, "metareader")) {
		unsigned char b[64]; int r = sqfs_meta_reader_seek(o, super.inode_table_start, 0);
		if (r == 0) r = sqfs_meta_reader_read(o, b, sizeof b);
		c = crc32(c, (void *)&r, sizeof r); if (r == 0) c = crc32(c, b, sizeof b);
	} else if (!strncmp(kind, "dirreader", 9)) {
		sqfs_inode_generic_t *root = NULL; sqfs_dir_reader_state_t st;
		int r = sqfs_dir_reader_get_root_inode(o, &root);
		if (r == 0) r = sqfs_dir_reader_open_dir(o, root, &st, 0);
		for (int k = 0; r == 0 && k < 1000; ++k) { sqfs_dir_node_t *e = NULL; r = sqfs_dir_reader_read(o, &st, &e); if (r == 0) { c = crc32(c, (void *)e, sizeof(*e) + e->size + 1); c = crc32(c, (void *)&st.ent_ref, sizeof st.ent_ref); sqfs_free(e); } }
		c = crc32(c, (void *)&r, sizeof r);
		sqfs_free(root);
		/* what the reader remembers about directories seen so far (does not change it): inode number -> reference */
		for (sqfs_u32 inum = 1; inum <= super.inode_count && inum <= 6000; ++inum) {
			sqfs_u64 ref = 0; int rr = sqfs_dir_reader_resolve_inum(o, inum, &ref);
			c = crc32(c, (void *)&rr, sizeof rr); c = crc32(c, (void *)&ref, sizeof ref);
		}
	} else if (!strcmp(kind, "datareader")) {
		sqfs_dir_reader_t *dr = sqfs_dir_reader_create(&super, cmp, file, 0);
		for (int n = 0; n < 3; ++n) {
			sqfs_inode_generic_t *f = nth_file(dr, n);
			static char buf[20000];
			if (f) { sqfs_s32 r = sqfs_data_reader_read(o, f, 0, buf, sizeof buf); c = crc32(c, (void *)&r, sizeof r); if (r > 0) c = crc32(c, (void *)buf, r); }
			sqfs_free(f);
		}
		sqfs_drop(dr);
	} else if (!strcmp(kind, "xattrreader")) {
		for (int i = 0; i < 3; ++i) {
			sqfs_xattr_t *l = NULL; int r = sqfs_xattr_reader_read_all(o, i, &l);
			c = crc32(c, (void *)&r, sizeof r);
			while (r == 0 && l) { sqfs_xattr_t *n = l->next; c = crc32(c, (void *)l->key, strlen(l->key)); c = crc32(c, l->value, l->value_len); sqfs_free(l); l = n; }
		}
	} else if (!strcmp(kind, "file")) {
		unsigned char b[96]; sqfs_u64 sz = ((sqfs_file_t *)o)->get_size(o);
		int r = ((sqfs_file_t *)o)->read_at(o, 0, b, sizeof b);
		c = crc32(c, (void *)&sz, sizeof sz); c = crc32(c, (void *)&r, sizeof r); if (r == 0) c = crc32(c, b, sizeof b);
	} else if (!strcmp(kind, "xattrwriter")) {
		sqfs_file_t *mf = memfile(); sqfs_super_t s2 = super;
		sqfs_compressor_t *c2 = mkcomp(SQFS_COMP_GZIP, 0);
		int r = sqfs_xattr_writer_flush(o, mf, &s2, c2);
		c = crc32(c, (void *)&r, sizeof r);
		c = crc32(c, ((memfile_t *)mf)->d, ((memfile_t *)mf)->n);
		sqfs_drop(c2); sqfs_drop(mf);
	}
	return c;
}

/* allocation failure inside one sqfs_copy call: linked with -Wl,--wrap=malloc,--wrap=calloc,--wrap=realloc,--wrap=strdup */
static long fail_in = 0;        /* > 0: the fail_in-th allocation from now on returns NULL (then disarmed) */
void *__real_malloc(size_t); void *__real_calloc(size_t, size_t); void *__real_realloc(void *, size_t); char *__real_strdup(const char *);
static int hit(void) { if (fail_in > 0 && --fail_in == 0) return 1; return 0; }
void *__wrap_malloc(size_t n) { return hit() ? NULL : __real_malloc(n); }
void *__wrap_calloc(size_t a, size_t b) { return hit() ? NULL : __real_calloc(a, b); }
void *__wrap_realloc(void *p, size_t n) { return hit() ? NULL : __real_realloc(p, n); }
char *__wrap_strdup(const char *s) { return hit() ? NULL : __real_strdup(s); }

int main(int argc, char **argv)
{
	if (argc < 4) return 2;
	kind = argv[1]; image = argv[2];
	for (size_t i = 0; i < sizeof sample; ++i) sample[i] = (sqfs_u8)((i * 7) % 23 + (i / 97));
	if (sqfs_file_open(&file, image, SQFS_FILE_OPEN_READ_ONLY)) return 2;
	if (sqfs_super_read(&super, file)) return 2;
	cmp = mkcomp(super.compression_id, 1);
	if (!cmp) return 2;
	if (!strncmp(kind, "comp", 4)) {
		char nm[16]; char dir;
		if (sscanf(kind, "comp_%15[a-z0-9]_%c", nm, &dir) != 2) return 2;
		comp_id = sqfs_compressor_id_from_name(nm); comp_unc = dir == 'u';
		comp_variant = dir == 'o' ? 1 : dir == 'p' ? 2 : 0;
		if (comp_id <= 0) return 2;
		sqfs_compressor_t *c = mkcomp(comp_id, 0);
		if (!c) { printf("{\"skip\":\"compressor not available\"}\n"); return 0; }
		packed_len = c->do_block(c, sample, sizeof sample, packed, sizeof packed);
		sqfs_drop(c);
		if (packed_len <= 0) return 2;
	}
	void *obj[MAXO] = { 0 };
	int muts[MAXO][MAXM][2], nm[MAXO] = { 0 };
	obj[1] = k_create();
	if (!obj[1]) { printf("{\"skip\":\"cannot create\"}\n"); return 0; }
	FILE *f = fopen(argv[3], "r");
	char line[128]; int i = 0;
	while (f && fgets(line, sizeof line, f)) {
		char op[16]; int a = 0, b = 0;
		if (sscanf(line, "%15s %d %d", op, &a, &b) < 1) continue;
		++i;
		if (!strcmp(op, "mut")) {
			if (!obj[a] || nm[a] >= MAXM) { printf("{\"i\":%d,\"bad\":\"mut\"}\n", i); continue; }
			k_mut(obj[a], b, nm[a]);
			muts[a][nm[a]][0] = b; muts[a][nm[a]][1] = nm[a]; nm[a]++;
			printf("{\"i\":%d,\"op\":\"mut %d %d\"}\n", i, a, b);
		} else if (!strcmp(op, "query")) {
			if (!obj[a]) { printf("{\"i\":%d,\"bad\":\"query\"}\n", i); continue; }
			unsigned long ans = k_query(obj[a]);
			void *fresh = k_create();
			for (int k = 0; k < nm[a]; ++k) k_mut(fresh, muts[a][k][0], muts[a][k][1]);
			unsigned long ref = k_query(fresh);
			sqfs_drop(fresh);
			printf("{\"i\":%d,\"op\":\"query %d\",\"ans\":%lu,\"ref\":%lu}\n", i, a, ans, ref);
		} else if (!strcmp(op, "copy")) {
			if (!obj[a] || obj[b]) { printf("{\"i\":%d,\"bad\":\"copy\"}\n", i); continue; }
			obj[b] = sqfs_copy(obj[a]);
			memcpy(muts[b], muts[a], sizeof muts[a]); nm[b] = nm[a];
			printf("{\"i\":%d,\"op\":\"copy %d %d\",\"null\":%d}\n", i, a, b, obj[b] == NULL);
			if (!obj[b]) { printf("{\"i\":%d,\"copy_failed\":true}\n", i); break; }
		} else if (!strcmp(op, "copyfail")) {
			/* b-th allocation inside the copy fails; whatever comes back is released at once: net effect nothing */
			if (!obj[a]) { printf("{\"i\":%d,\"bad\":\"copyfail\"}\n", i); continue; }
			fail_in = b;
			void *c = sqfs_copy(obj[a]);
			int fired = fail_in == 0;
			fail_in = 0;
			if (c) sqfs_drop(c);
			printf("{\"i\":%d,\"op\":\"copyfail %d %d\",\"null\":%d,\"fired\":%d}\n", i, a, b, c == NULL, fired);
		} else if (!strcmp(op, "grab")) {
			if (obj[a]) sqfs_grab(obj[a]);
			printf("{\"i\":%d,\"op\":\"grab %d\"}\n", i, a);
		} else if (!strcmp(op, "drop")) {
			/* b = 1: this was the client's last reference */
			if (obj[a]) sqfs_drop(obj[a]);
			if (b) obj[a] = NULL;
			printf("{\"i\":%d,\"op\":\"drop %d\"}\n", i, a);
		}
		fflush(stdout);
	}
	for (int k = 0; k < MAXO; ++k) if (obj[k]) { printf("{\"leftover\":%d}\n", k); sqfs_drop(obj[k]); }
	sqfs_drop(cmp);
	sqfs_drop(file);
	printf("{\"end\":true}\n");
	return 0;
}
