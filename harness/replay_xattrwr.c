/* Replays add sequences emitted from spec/XattrWriter.tla on the real xattr writer, flushes, and reads every inode's
 * set back with the real xattr reader (one reader for all inodes, then a fresh reader per inode: both must agree).
 * input (stdin):  C | I | A <key> <hexvalue> | E | F           one line of JSON per case (on F) on stdout
 * usage: replay_xattrwr <scratch file> */
#include <stdio.h>
#include <stdlib.h>
#include <string.h>
#include "sqfs/xattr_writer.h"
#include "sqfs/xattr_reader.h"
#include "sqfs/xattr.h"
#include "sqfs/compressor.h"
#include "sqfs/super.h"
#include "sqfs/io.h"
#include "sqfs/error.h"

#define MAXI 16
#define MAXQ 256
static sqfs_u32 idx[MAXI];
static int nino;
static char *hist[MAXQ];
static int nhist;

/* "Q i:n:k i:n:k ; j": on ONE reader walk the set of inode i (seek_kv, n complete key/value pairs, k = 1: one more key whose
 * value is not read), ..., then read_all of inode j; the answer must be the one a fresh reader gives for j */
static int same_list(sqfs_xattr_t *a, sqfs_xattr_t *b)
{
	for (; a && b; a = a->next, b = b->next)
		if (strcmp(a->key, b->key) || a->value_len != b->value_len || memcmp(a->value, b->value, a->value_len))
			return 0;
	return !a && !b;
}

static int run_history(const char *q, sqfs_super_t *super, sqfs_file_t *file, sqfs_compressor_t *ucmp)
{
	sqfs_xattr_reader_t *xr = sqfs_xattr_reader_create(0), *fresh = sqfs_xattr_reader_create(0);
	sqfs_xattr_t *l = NULL, *l2 = NULL;
	int ok = 1, i, n, k, j = -1, r1, r2;
	const char *p = q + 1;

	if (!xr || !fresh) exit(2);
	if (sqfs_xattr_reader_load(xr, super, file, ucmp) || sqfs_xattr_reader_load(fresh, super, file, ucmp)) { ok = -1; goto out; }
	while (*p == ' ') ++p;
	while (*p && *p != ';') {
		int d = 0;
		if (sscanf(p, "%d:%d:%d:%d", &i, &n, &k, &d) < 3) break;
		if (i < nino && idx[i] != 0xFFFFFFFF) {
			sqfs_xattr_id_t desc, other;
			sqfs_xattr_entry_t *key;
			sqfs_xattr_value_t *val;
			sqfs_xattr_t *want = NULL, *w;
			int c, calls = 0;
			/* what a fresh reader says about this set: every key / value of the walk is compared with it */
			if (sqfs_xattr_reader_read_all(fresh, idx[i], &want)) want = NULL;
			w = want;
#define MAYBE_DESC() do { if (d && ++calls == d) (void)sqfs_xattr_reader_get_desc(xr, idx[(i + 1) % nino] == 0xFFFFFFFF ? idx[i] : idx[(i + 1) % nino], &other); } while (0)
			if (sqfs_xattr_reader_get_desc(xr, idx[i], &desc) == 0 && sqfs_xattr_reader_seek_kv(xr, &desc) == 0) {
				MAYBE_DESC();
				for (c = 0; c < n && c < (int)desc.count; ++c) {
					if (sqfs_xattr_reader_read_key(xr, &key)) { ok = 0; break; }
					if (w == NULL || strcmp((const char *)key->key, w->key)) ok = 0;
					MAYBE_DESC();
					if (sqfs_xattr_reader_read_value(xr, key, &val)) { sqfs_free(key); ok = 0; break; }
					if (w == NULL || val->size != w->value_len || memcmp(val->value, w->value, val->size)) ok = 0;
					MAYBE_DESC();
					sqfs_free(key); sqfs_free(val);
					if (w) w = w->next;
				}
				if (k && c == n && c < (int)desc.count) {
					if (sqfs_xattr_reader_read_key(xr, &key) == 0) {
						if (w == NULL || strcmp((const char *)key->key, w->key)) ok = 0;
						sqfs_free(key);
					} else ok = 0;
				}
			}
#undef MAYBE_DESC
			sqfs_xattr_list_free(want);
		}
		while (*p && *p != ' ' && *p != ';') ++p;
		while (*p == ' ') ++p;
	}
	if (*p == ';') j = atoi(p + 1);
	if (j < 0 || j >= nino || idx[j] == 0xFFFFFFFF) { ok = -1; goto out; }
	r1 = sqfs_xattr_reader_read_all(xr, idx[j], &l);
	r2 = sqfs_xattr_reader_read_all(fresh, idx[j], &l2);
	ok = ok && (r1 == r2) && (r1 != 0 || same_list(l, l2));
	sqfs_xattr_list_free(l);
	sqfs_xattr_list_free(l2);
out:
	sqfs_drop(xr);
	sqfs_drop(fresh);
	return ok;
}

static size_t unhex(const char *s, unsigned char *out)
{
	size_t n = 0;
	unsigned int v;
	while (s[0] && s[1] && sscanf(s, "%2x", &v) == 1) { out[n++] = v; s += 2; }
	return n;
}

static void print_list(sqfs_xattr_t *l)
{
	int first = 1;
	size_t i;
	putchar('[');
	for (; l != NULL; l = l->next) {
		printf("%s[\"%s\",\"", first ? "" : ",", l->key);
		for (i = 0; i < l->value_len; ++i) printf("%02x", l->value[i]);
		printf("\"]");
		first = 0;
	}
	putchar(']');
}

int main(int argc, char **argv)
{
	char line[4096], key[256], hex[2048];
	unsigned char val[1024];
	sqfs_xattr_writer_t *xwr = NULL;
	sqfs_compressor_config_t cfg;
	sqfs_compressor_t *cmp, *ucmp;
	sqfs_file_t *file = NULL;
	sqfs_super_t super;
	int err = 0, i;

	if (argc < 2) return 2;
	sqfs_compressor_config_init(&cfg, SQFS_COMP_GZIP, 4096, 0);
	if (sqfs_compressor_create(&cfg, &cmp)) return 2;
	sqfs_compressor_config_init(&cfg, SQFS_COMP_GZIP, 4096, SQFS_COMP_FLAG_UNCOMPRESS);
	if (sqfs_compressor_create(&cfg, &ucmp)) return 2;

	while (fgets(line, sizeof(line), stdin)) {
		if (line[0] == 'C') {
			if (xwr) sqfs_drop(xwr);
			if (file) sqfs_drop(file);
			xwr = sqfs_xattr_writer_create(0);
			file = NULL;
			if (!xwr || sqfs_file_open(&file, argv[1], SQFS_FILE_OPEN_OVERWRITE)) return 2;
			sqfs_super_init(&super, 4096, 0, SQFS_COMP_GZIP);
			sqfs_super_write(&super, file);
			super.id_table_start = sizeof(super);	/* the reader bounds its meta readers by [id table start, bytes used) */
			nino = 0; err = 0;
			while (nhist > 0) free(hist[--nhist]);
		} else if (line[0] == 'I') {
			err = err ? err : sqfs_xattr_writer_begin(xwr, 0);
		} else if (line[0] == 'A') {
			size_t n;
			hex[0] = 0;
			sscanf(line + 2, "%255s %2047s", key, hex);
			n = unhex(hex, val);
			err = err ? err : sqfs_xattr_writer_add_kv(xwr, key, val, n);
		} else if (line[0] == 'E') {
			sqfs_u32 out = 0xFFFFFFFF;
			err = err ? err : sqfs_xattr_writer_end(xwr, &out);
			if (nino < MAXI) idx[nino++] = out;
		} else if (line[0] == 'Q') {
			if (nhist < MAXQ) hist[nhist++] = strdup(line);
		} else if (line[0] == 'F') {
			sqfs_xattr_reader_t *xr;
			sqfs_xattr_id_t desc;
			sqfs_u32 nsets = 0;
			int agree = 1;

			err = err ? err : sqfs_xattr_writer_flush(xwr, file, &super, cmp);
			super.bytes_used = file->get_size(file);
			printf("{\"err\":%d,\"noxattr\":%s,\"idx\":[", err, (super.flags & SQFS_FLAG_NO_XATTRS) ? "true" : "false");
			for (i = 0; i < nino; ++i) printf("%s%ld", i ? "," : "", idx[i] == 0xFFFFFFFF ? -1L : (long)idx[i]);
			printf("],\"back\":[");
			xr = sqfs_xattr_reader_create(0);
			if (xr == NULL) return 2;
			if (!err) err = sqfs_xattr_reader_load(xr, &super, file, ucmp);
			for (i = 0; i < nino && !err; ++i) {
				sqfs_xattr_t *l = NULL, *l2 = NULL, *a, *b;
				sqfs_xattr_reader_t *fresh;
				int r = sqfs_xattr_reader_read_all(xr, idx[i], &l);
				if (i) putchar(',');
				if (r) { printf("{\"rerr\":%d}", r); continue; }
				print_list(l);
				fresh = sqfs_xattr_reader_create(0);
				if (fresh == NULL) return 2;
				if (sqfs_xattr_reader_load(fresh, &super, file, ucmp) || sqfs_xattr_reader_read_all(fresh, idx[i], &l2))
					agree = 0;
				for (a = l, b = l2; a && b; a = a->next, b = b->next)
					if (strcmp(a->key, b->key) || a->value_len != b->value_len || memcmp(a->value, b->value, a->value_len))
						agree = 0;
				if (a || b) agree = 0;
				sqfs_xattr_list_free(l);
				sqfs_xattr_list_free(l2);
				sqfs_drop(fresh);
			}
			while (!err && sqfs_xattr_reader_get_desc(xr, nsets, &desc) == 0)
				nsets++;
			printf("],\"hist\":[");
			for (i = 0; i < nhist && !err; ++i)
				printf("%s%d", i ? "," : "", run_history(hist[i], &super, file, ucmp));
			printf("],\"nsets\":%u,\"lerr\":%d,\"history_free\":%s,\"size\":%lu}\n", nsets, err, agree ? "true" : "false",
			       (unsigned long)super.bytes_used);
			fflush(stdout);
			sqfs_drop(xr);
		}
	}
	while (nhist > 0) free(hist[--nhist]);
	if (xwr) sqfs_drop(xwr);
	if (file) sqfs_drop(file);
	sqfs_drop(cmp);
	sqfs_drop(ucmp);
	return 0;
}
