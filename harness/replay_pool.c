/* Replays schedules (from TLC behaviours of spec/ThreadPool.tla, or seeded random ones) on the real
 * lib/util/src/threadpool.c under the controlled scheduler and prints, after every step, the projected
 * state as one JSON line.  Property monitors (FIFO, exactly-once, context exclusivity, deadlock) run on
 * the real calls.  Compile:  gcc -include sched.h replay_pool.c  sched.c(no -include)  alloc.c
 *
 * -DNO_PROJECTION: do not look at the static state of the pool (fallback after a refactoring: drift). */
#include <stdio.h>
#include <stdlib.h>
#include <string.h>
#include <unistd.h>

#include REPO_THREADPOOL_C

#define MAXN 64
static int W, N, failset[MAXN + 1];
static thread_pool_t *pool;
static struct { int ticket; } items[MAXN + 1];
static int submitted, processed[MAXN + 1], returned[MAXN * 2], nreturned;
static int ctx_busy[MAXN + 8], ctx_val[MAXN + 8];
static int viol_ctx, viol_null_item;
static char cur_op[32] = "none";
static int op_a, op_b;
static int last_val;
static int status_returns, finish_after;
static char last_call[16] = "none";
static int client_done;
static int worker_ticket[MAXN];

static int cb(void *user, void *item)
{
	int c = (int)(long)user, t = ((typeof(items[0]) *)item)->ticket;
	int me = sched_self();
	if (c >= 0 && c < MAXN + 8) {
		if (ctx_busy[c]) viol_ctx = 1;
		ctx_busy[c]++;
	}
	worker_ticket[me] = t;
	shim_yield(1);
	processed[t]++;
	if (c >= 0 && c < MAXN + 8) ctx_busy[c]--;
	worker_ticket[me] = 0;
	return failset[t] ? 1 : 0;
}

static void *client(void *arg)
{
	(void)arg;
	pool = thread_pool_create(W, cb);
	if (pool == NULL) { strcpy(last_call, "create"); last_val = -1; client_done = 1; return NULL; }
	for (int i = 0; i < W; ++i) { ctx_val[i] = i + 1; pool->set_worker_ptr(pool, i, (void *)(long)(i + 1)); }
	for (;;) {
		shim_yield(0);
		if (!strcmp(cur_op, "sub")) {
			strcpy(cur_op, "sub_lock");
			int t = submitted + 1;
			items[t].ticket = t;
			int r = pool->submit(pool, &items[t]);
			if (r == 0) submitted++;
			strcpy(last_call, "submit"); last_val = r;
		} else if (!strcmp(cur_op, "deq")) {
			strcpy(cur_op, "dq_lock");
			void *p = pool->dequeue(pool);
			strcpy(last_call, "dequeue");
			if (p == NULL) last_val = 0;
			else { last_val = ((typeof(items[0]) *)p)->ticket; returned[nreturned++] = last_val; }
		} else if (!strcmp(cur_op, "st")) {
			strcpy(cur_op, "st_lock");
			last_val = pool->get_status(pool);
			strcpy(last_call, "status");
			status_returns++;
		} else if (!strcmp(cur_op, "setptr")) {
			strcpy(cur_op, "sp_lock");
			pool->set_worker_ptr(pool, op_a - 1, (void *)(long)op_b);

		} else if (!strcmp(cur_op, "des")) {
			strcpy(cur_op, "destroy_lock");
			pool->destroy(pool);
			pool = NULL;
			break;
		}
		strcpy(cur_op, "none");
	}
	client_done = 1;
	return NULL;
}

static const char *client_pc(void)
{
	switch (sched_kind(0)) {
	case PK_YIELD: return "idle";
	case PK_LOCK: return cur_op;
	case PK_WAIT: return sched_woken(0) ? "dq_relock" : "dq_wait";
	case PK_JOIN: return "join";
	case PK_FINISHED: return "destroyed";
	default: return "?";
	}
}
static const char *worker_pc(int t)
{
	switch (sched_kind(t)) {
	case PK_YIELD: return "infun";
	case PK_LOCK: return "lock";
	case PK_WAIT: return sched_woken(t) ? "relock" : "waitq";
	case PK_FINISHED: return "exit";
	default: return "?";
	}
}

static void plist(const char *name, work_item_t *l)
{
	printf("\"%s\":[", name);
#ifndef NO_PROJECTION
	for (int k = 0; l != NULL && k < 1000; l = l->next, ++k)
		printf("%s%d", k ? "," : "", (int)l->ticket_number + 1);
#else
	(void)l;
#endif
	printf("],");
}

static void project(int step, const char *what)
{
	printf("{\"step\":%d,\"did\":\"%s\",", step, what);
#ifndef NO_PROJECTION
	if (pool != NULL) {
		thread_pool_impl_t *p = (thread_pool_impl_t *)pool;
		plist("queue", p->queue); plist("done", p->done); plist("safeDone", p->safe_done);
		printf("\"nextTicket\":%d,\"nextDeq\":%d,\"itemCount\":%d,\"status\":%d,",
		       (int)p->next_ticket + 1, (int)p->next_dequeue_ticket + 1, (int)p->item_count, p->status);
		printf("\"ctx\":[");
		for (int i = 0; i < W; ++i) printf("%s%d", i ? "," : "", (int)(long)p->workers[i].user);
		printf("],\"proj\":true,");
	} else
#endif
		printf("\"proj\":false,");
	printf("\"mpc\":\"%s\",\"wpc\":[", client_pc());
	for (int i = 1; i < sched_nthreads(); ++i) printf("%s\"%s\"", i > 1 ? "," : "", worker_pc(i));
	printf("],\"witem\":[");
	for (int i = 1; i < sched_nthreads(); ++i) printf("%s%d", i > 1 ? "," : "", worker_ticket[i]);
	printf("],\"returned\":[");
	for (int i = 0; i < nreturned; ++i) printf("%s%d", i ? "," : "", returned[i]);
	printf("],\"processed\":[");
	for (int i = 1; i <= N; ++i) printf("%s%d", i > 1 ? "," : "", processed[i]);
	printf("],\"lastRet\":[\"%s\",%d],\"viol_ctx\":%d}\n", last_call, last_val, viol_ctx);
	fflush(stdout);
}

static int check_monitors(void)
{
	for (int i = 0; i < nreturned; ++i) if (returned[i] != i + 1) return 1;
	for (int i = 1; i <= N; ++i) if (processed[i] > 1) return 2;
	for (int i = 0; i < nreturned; ++i) if (returned[i] >= 1 && returned[i] <= N && processed[returned[i]] != 1) return 3;
	if (viol_ctx) return 4;
	return 0;
}

static unsigned long long rng_s;
static unsigned rnd(unsigned n) { rng_s = rng_s * 6364136223846793005ULL + 1442695040888963407ULL; return (unsigned)(rng_s >> 33) % n; }

int main(int argc, char **argv)
{
	if (argc < 2) { fprintf(stderr, "usage: replay_pool file\n"); return 2; }
	FILE *f = fopen(argv[1], "r");
	char line[256], mode[16] = "replay";
	long seed = 1; int maxsteps = 400, nspur = 0;
	if (!f) { perror(argv[1]); return 2; }
	if (fscanf(f, "W %d N %d\n", &W, &N) != 2 || N > MAXN || W > 32) return 2;
	while (fgets(line, sizeof line, f)) {
		int t;
		if (sscanf(line, "FAIL %d", &t) == 1) { if (t >= 1 && t <= N) failset[t] = 1; }
		else if (sscanf(line, "CREATEFAIL %d", &t) == 1) sched_fail_create_at = t;
		else if (sscanf(line, "FINISH %d", &t) == 1) finish_after = t;
		else if (sscanf(line, "MODE %15s %ld %d %d", mode, &seed, &maxsteps, &nspur) >= 1) break;
	}
	sched_spawn(client, NULL);
	sched_settle();
	for (int i = 0; i < W && sched_kind(0) == PK_LOCK; ++i) sched_step(0);   /* initial set_worker_ptr calls */
	project(0, "init");
	int step = 0, rc = 0;
	if (!strcmp(mode, "replay")) {
		while (fgets(line, sizeof line, f)) {
			char k; int tid; char op[16] = ""; int a = 0, b = 0;
			int n = sscanf(line, "%c %d %15s %d %d", &k, &tid, op, &a, &b);
			if (n < 2) continue;
			++step;
			if (k == 'P') {
				if (sched_spurious(tid) != 0) { printf("{\"step\":%d,\"cannot_follow\":\"spurious %d\"}\n", step, tid); rc = 4; break; }
				project(step, "spurious");
			} else {
				if (tid == 0 && sched_kind(0) == PK_YIELD) {
					if (n < 3) { printf("{\"step\":%d,\"cannot_follow\":\"client idle but no op\"}\n", step); rc = 4; break; }
					strcpy(cur_op, op); op_a = a; op_b = b;
				} else if (tid == 0 && n >= 3) { printf("{\"step\":%d,\"cannot_follow\":\"client not idle for op %s\"}\n", step, op); rc = 4; break; }
				int r = sched_step(tid);
				if (r == -1) { printf("{\"step\":%d,\"cannot_follow\":\"thread %d not enabled\"}\n", step, tid); rc = 4; break; }
				if (r == -2) { printf("{\"step\":%d,\"hang\":%d}\n", step, tid); rc = 3; break; }
				project(step, line[0] == 'S' ? "step" : "?");
			}
			int m = check_monitors();
			if (m) { printf("{\"step\":%d,\"monitor\":%d}\n", step, m); rc = 1; break; }
			if (!sched_all_finished() && !sched_any_enabled()) {
				/* a spurious wake-up is never required for progress: this is a deadlock */
				printf("{\"step\":%d,\"deadlock\":true}\n", step); rc = 1; break;
			}
		}
	}
	/* FINISH 1: after the given schedule (followed as far as it can be followed) the run is completed under a fair scheduler: the client
	 * drains the pool, asks for the status and destroys it; the property monitors stay on.  A behaviour of the real pool that is not
	 * step-for-step the specification's is judged by this completed run, not by the alignment of single steps. */
	int finishing = !strcmp(mode, "replay") && finish_after && (rc == 0 || rc == 4);
	if (finishing) { rc = 0; maxsteps = step + 600; }
	if (strcmp(mode, "replay") || finishing) {
		rng_s = (unsigned long long)seed * 2654435761ULL + 12345;
		int subs = finishing ? N : 0, want_destroy = 0, deq_nulls = 0, st_pending = -1, st_expect = 0, asked = 0;
		while (step < maxsteps && !sched_all_finished()) {
			int cand[64], nc = 0;
			for (int i = 0; i < sched_nthreads(); ++i) if (sched_enabled(i)) cand[nc++] = i;
			if (nc == 0) { printf("{\"step\":%d,\"deadlock\":true}\n", step); rc = 1; break; }
			++step;
			if (nspur > 0 && rnd(8) == 0) {
				int w[64], nw = 0;
				for (int i = 0; i < sched_nthreads(); ++i) if (sched_kind(i) == PK_WAIT && !sched_woken(i)) w[nw++] = i;
				if (nw) { int t = w[rnd(nw)]; sched_spurious(t); nspur--; printf("{\"step\":%d,\"sched\":\"P %d\"}\n", step, t); continue; }
			}
			int tid = cand[rnd(nc)];
			if (tid == 0 && sched_kind(0) == PK_YIELD) {
				const char *op;
				int r = rnd(10);
				if (finishing && !want_destroy && !asked && (nreturned >= submitted || deq_nulls > 0)) {
					/* every worker parked: a failure that happened has been recorded by now, the status call has to show it */
					int parked = 1, failed = 0;
					for (int i = 1; i < sched_nthreads(); ++i) if (sched_kind(i) != PK_WAIT && sched_kind(i) != PK_FINISHED) parked = 0;
					for (int i = 1; i <= N; ++i) if (failset[i] && processed[i]) failed = 1;
					if (parked) { op = "st"; asked = 1; st_pending = status_returns; st_expect = failed; goto chosen; }
				}
				if (want_destroy) op = "des";
				else if (subs < N && r < 5) { op = "sub"; subs++; }
				else if (r < 8) op = "deq";
				else if (r < 9) op = "st";
				else op = (nreturned >= submitted && subs >= N) || rnd(6) == 0 ? "des" : "deq";
				if (!strcmp(op, "deq") && nreturned >= submitted) { if (++deq_nulls > 3) want_destroy = 1; }
				if (last_val != 0 && !strcmp(last_call, "status")) want_destroy = 1;
				if (finishing && asked && st_pending < 0) want_destroy = 1;
chosen:
				strcpy(cur_op, op);
				printf("{\"step\":%d,\"sched\":\"S 0 %s\"}\n", step, op);
			} else
				printf("{\"step\":%d,\"sched\":\"S %d\"}\n", step, tid);
			int r = sched_step(tid);
			if (r == -2) { printf("{\"step\":%d,\"hang\":%d}\n", step, tid); rc = 3; break; }
			int m = check_monitors();
			if (!m && st_pending >= 0 && status_returns > st_pending) {
				if (st_expect && last_val == 0) m = 5;		/* a worker failed, every worker is parked, get_status says 0 */
				st_pending = -1;
			}
			if (m) { project(step, "step"); printf("{\"step\":%d,\"monitor\":%d}\n", step, m); rc = 1; break; }
		}
		project(step, "end");
	}
	printf("{\"end\":true,\"rc\":%d,\"steps\":%d,\"finished\":%d}\n", rc, step, sched_all_finished());
	fflush(stdout);
	_exit(rc);
}
