/* C02/C08/C17/C03 harness: drives the real block processor + block writer + fragment table on an input
 * given in the vocabulary of spec/BlockProc.tla (files = atoms <content id, units>) with a scripted
 * compressor whose output size is dictated by the content id, an in-memory output file and real worker
 * threads, and prints the resulting layout (inodes, fragment table, disk) as one JSON line.
 *
 * unit = 1024 bytes, block = 4 units.  Atom (c, n), c != 'z':  byte0 = 0x80|n, rest = c.  'z' = zero bytes.
 * input file:   Q <backlog> W <workers> CS <c>=<units> ...      (<units> = -1: compressing a block that contains <c> fails)
 *               FILE <flags> <c> <n> <c> <n> ...            (one line per file, in order) */
#include <stdio.h>
#include <stdlib.h>
#include <string.h>
#include <zlib.h>
#include "sqfs/block_processor.h"
#include "sqfs/block_writer.h"
#include "sqfs/frag_table.h"
#include "sqfs/compressor.h"
#include "sqfs/inode.h"
#include "sqfs/block.h"
#include "sqfs/error.h"
#include "sqfs/io.h"
#ifdef SCHED
/* the pool runs under the controlled scheduler: threadpool.c is compiled here with the pthread shim */
#include REPO_THREADPOOL_C
#include <unistd.h>
#endif

#define U 1024
#define BS 4096
static int cs[256];

typedef struct { sqfs_file_t base; unsigned char *d; size_t n; } memfile_t;
static int mf_read(sqfs_file_t *f, sqfs_u64 off, void *b, size_t s) { memfile_t *m = (memfile_t *)f; if (off + s > m->n) return SQFS_ERROR_OUT_OF_BOUNDS; memcpy(b, m->d + off, s); return 0; }
static int mf_write(sqfs_file_t *f, sqfs_u64 off, const void *b, size_t s) { memfile_t *m = (memfile_t *)f; if (off + s > m->n) { m->d = realloc(m->d, off + s); memset(m->d + m->n, 0, off + s - m->n); m->n = off + s; } memcpy(m->d + off, b, s); return 0; }
static sqfs_u64 mf_size(const sqfs_file_t *f) { return ((const memfile_t *)f)->n; }
static int mf_trunc(sqfs_file_t *f, sqfs_u64 s) { memfile_t *m = (memfile_t *)f; m->d = realloc(m->d, s ? s : 1); if (s > m->n) memset(m->d + m->n, 0, s - m->n); m->n = s; return 0; }
static const char *mf_name(sqfs_file_t *f) { (void)f; return "mem"; }
static void mf_destroy(sqfs_object_t *o) { free(((memfile_t *)o)->d); free(o); }
static sqfs_file_t *memfile(void)
{
	memfile_t *m = calloc(1, sizeof(*m));
	m->base.base.refcount = 1; m->base.base.destroy = mf_destroy;
	m->base.read_at = mf_read; m->base.write_at = mf_write; m->base.get_size = mf_size;
	m->base.truncate = mf_trunc; m->base.get_filename = mf_name;
	return (sqfs_file_t *)m;
}

/* ---- scripted compressor ---- */
typedef struct { sqfs_compressor_t base; int unc; } scomp_t;
static void sc_destroy(sqfs_object_t *o) { free(o); }
static sqfs_object_t *sc_copy(const sqfs_object_t *o) { scomp_t *c = malloc(sizeof(*c)); memcpy(c, o, sizeof(*c)); return (sqfs_object_t *)c; }
static void sc_getcfg(const sqfs_compressor_t *c, sqfs_compressor_config_t *cfg) { (void)c; memset(cfg, 0, sizeof(*cfg)); cfg->id = SQFS_COMP_GZIP; cfg->block_size = BS; }
static int sc_wopt(sqfs_compressor_t *c, sqfs_file_t *f) { (void)c; (void)f; return 0; }
static int sc_ropt(sqfs_compressor_t *c, sqfs_file_t *f) { (void)c; (void)f; return 0; }
static sqfs_s32 sc_block(sqfs_compressor_t *base, const sqfs_u8 *in, sqfs_u32 size, sqfs_u8 *out, sqfs_u32 outsize)
{
	scomp_t *c = (scomp_t *)base;
	if (!c->unc) {
		unsigned char hdr[64]; int nh = 6, natoms = 0; sqfs_u32 pos = 0, units = 0;
		memcpy(hdr, "CMPR", 4);
		while (pos < size) {
			if (in[pos] == 0) { hdr[nh++] = 1; hdr[nh++] = 'z'; pos += U; units += 1; natoms++; }
			else {
				int n = in[pos] & 0x7f, ch = in[pos + 1];
				if (!(in[pos] & 0x80) || n < 1 || n > 4 || pos + (sqfs_u32)n * U > size) return SQFS_ERROR_COMPRESSOR;
				if (cs[ch] < 0) return SQFS_ERROR_COMPRESSOR;       /* scripted failure (CS <c>=-1): e.g. the codec ran out of memory */
				hdr[nh++] = (unsigned char)n; hdr[nh++] = (unsigned char)ch;
				units += cs[ch] < n ? cs[ch] : n; pos += n * U; natoms++;
			}
			if (nh > 60) return SQFS_ERROR_COMPRESSOR;
		}
		hdr[4] = (unsigned char)natoms; hdr[5] = 0;
		if (units * U >= size || units * U > outsize) return 0;
		memset(out, 0, units * U);
		memcpy(out, hdr, nh);
		return units * U;
	} else {
		if (size < 6 || memcmp(in, "CMPR", 4)) return SQFS_ERROR_COMPRESSOR;
		int natoms = in[4]; sqfs_u32 pos = 0;
		for (int i = 0; i < natoms; ++i) {
			int n = in[6 + 2 * i], ch = in[7 + 2 * i];
			if (pos + (sqfs_u32)n * U > outsize) return SQFS_ERROR_COMPRESSOR;
			if (ch == 'z') memset(out + pos, 0, n * U);
			else { memset(out + pos, ch, n * U); out[pos] = 0x80 | n; }
			pos += n * U;
		}
		return pos;
	}
}
static sqfs_compressor_t *mkcomp(int unc)
{
	scomp_t *c = calloc(1, sizeof(*c));
	c->base.base.refcount = 1; c->base.base.destroy = sc_destroy; c->base.base.copy = sc_copy;
	c->base.get_configuration = sc_getcfg; c->base.write_options = sc_wopt; c->base.read_options = sc_ropt;
	c->base.do_block = sc_block; c->unc = unc;
	return (sqfs_compressor_t *)c;
}

#ifdef SCHED
static int g_argc; static char **g_argv; static int bp_main(int argc, char **argv);
static void *client(void *a) { (void)a; bp_main(g_argc, g_argv); return NULL; }
int main(int argc, char **argv)
{
	/* usage: <input> <seed> : the block processor client and the pool workers are scheduled one step at a time */
	unsigned long long s = (argc > 2 ? strtoull(argv[2], NULL, 10) : 1) * 2654435761ULL + 99;
	g_argc = 2; g_argv = argv;
	sched_yield_on_unlock = 1;
	sched_spawn(client, NULL);
	sched_settle();
	long steps = 0;
	while (!sched_all_finished()) {
		int cand[64], nc = 0;
		for (int i = 0; i < sched_nthreads(); ++i) if (sched_enabled(i)) cand[nc++] = i;
		if (nc == 0) { printf("{\"deadlock\":true,\"steps\":%ld}\n", steps); fflush(stdout); _exit(0); }
		s = s * 6364136223846793005ULL + 1442695040888963407ULL;
		if ((s >> 40) % 16 == 0) {      /* occasional spurious wake-up */
			for (int i = 0; i < sched_nthreads(); ++i) if (sched_kind(i) == PK_WAIT && !sched_woken(i)) { sched_spurious(i); break; }
		}
		s = s * 6364136223846793005ULL + 1442695040888963407ULL;
		int r = sched_step(cand[(s >> 33) % nc]);
		if (r == -2) { printf("{\"hang\":true}\n"); fflush(stdout); _exit(0); }
		if (++steps > 2000000) { printf("{\"livelock\":true}\n"); fflush(stdout); _exit(0); }
	}
	fflush(stdout);
	_exit(0);
}
static int bp_main(int argc, char **argv)
#else
int main(int argc, char **argv)
#endif
{
	if (argc < 2) return 2;
	FILE *f = fopen(argv[1], "r");
	if (!f) return 2;
	char line[4096];
	unsigned Q = 3, W = 1;
	for (int i = 0; i < 256; ++i) cs[i] = 4;
	if (!fgets(line, sizeof line, f)) return 2;
	{
		char *p = strstr(line, "CS");
		sscanf(line, "Q %u W %u", &Q, &W);
		if (p) { p += 2; char c; int v; int used; while (sscanf(p, " %c=%d%n", &c, &v, &used) == 2) { cs[(unsigned char)c] = v; p += used; } }
	}
	sqfs_file_t *out = memfile();
	sqfs_block_writer_t *wr = sqfs_block_writer_create(out, 0);
	sqfs_frag_table_t *tbl = sqfs_frag_table_create(0);
	sqfs_compressor_t *cmp = mkcomp(0), *unc = mkcomp(1);
	sqfs_block_processor_desc_t desc;
	sqfs_block_processor_t *proc = NULL;
	memset(&desc, 0, sizeof desc);
	desc.size = sizeof desc; desc.max_block_size = BS; desc.num_workers = W; desc.max_backlog = Q;
	desc.cmp = cmp; desc.wr = wr; desc.tbl = tbl; desc.file = out; desc.uncmp = unc;
	int ret = sqfs_block_processor_create_ex(&desc, &proc);
	if (ret) { printf("{\"fatal\":\"create %d\"}\n", ret); return 0; }
	sqfs_inode_generic_t *inodes[64] = { 0 };
	int nf = 0, err = 0;
	static unsigned char buf[BS];
	while (!err && fgets(line, sizeof line, f) && nf < 64) {
		unsigned flags; int used; char *p = line;
		if (sscanf(p, "FILE %u%n", &flags, &used) != 1) continue;
		p += used;
		err = sqfs_block_processor_begin_file(proc, &inodes[nf], NULL, flags);
		char c; int n;
		while (!err && sscanf(p, " %c %d%n", &c, &n, &used) == 2) {
			p += used;
			if (c == 'z') memset(buf, 0, n * U);
			else { memset(buf, c, n * U); buf[0] = 0x80 | n; }
			err = sqfs_block_processor_append(proc, buf, n * U);
		}
		if (!err) err = sqfs_block_processor_end_file(proc);
		nf++;
	}
	if (!err) err = sqfs_block_processor_finish(proc);
	printf("{\"err\":%d,\"ino\":[", err);
	for (int i = 0; i < nf; ++i) {
		sqfs_inode_generic_t *ino = inodes[i];
		sqfs_u64 size = 0, start = 0, sparse = 0; sqfs_u32 fi = 0, fo = 0;
		if (!ino) { printf("%snull", i ? "," : ""); continue; }
		sqfs_inode_get_file_size(ino, &size);
		sqfs_inode_get_file_block_start(ino, &start);
		sqfs_inode_get_frag_location(ino, &fi, &fo);
		int ext = ino->base.type == SQFS_INODE_EXT_FILE;
		if (ext) sparse = ino->data.file_ext.sparse;
		printf("%s{\"size\":%llu,\"start\":%llu,\"fidx\":%lld,\"foff\":%u,\"sparse\":%llu,\"ext\":%s,\"blocks\":[", i ? "," : "",
		       (unsigned long long)size, (unsigned long long)start, fi == 0xFFFFFFFF ? -1LL : (long long)fi,
		       fi == 0xFFFFFFFF ? 0 : fo, (unsigned long long)sparse, ext ? "true" : "false");
		size_t nb = ino->payload_bytes_used / 4;
		for (size_t k = 0; k < nb; ++k)
			printf("%s[%u,%s]", k ? "," : "", SQFS_ON_DISK_BLOCK_SIZE(ino->extra[k]),
			       (SQFS_IS_BLOCK_COMPRESSED(ino->extra[k]) && ino->extra[k]) ? "true" : "false");
		printf("]}");
	}
	printf("],\"ftbl\":[");
	size_t nfr = sqfs_frag_table_get_size(tbl);
	for (size_t i = 0; i < nfr; ++i) {
		sqfs_fragment_t e;
		sqfs_frag_table_lookup(tbl, i, &e);
		printf("%s{\"loc\":%llu,\"size\":%u,\"comp\":%s}", i ? "," : "", (unsigned long long)e.start_offset,
		       SQFS_ON_DISK_BLOCK_SIZE(e.size), (SQFS_IS_BLOCK_COMPRESSED(e.size) && e.size) ? "true" : "false");
	}
	memfile_t *m = (memfile_t *)out;
	printf("],\"dsize\":%zu,\"dcrc\":%lu,\"disk\":\"", m->n, crc32(0, m->d, m->n));
	for (size_t i = 0; i < m->n && m->n <= 65536; ++i) printf("%02x", m->d[i]);
	printf("\"}\n");
	if (argc > 2) { FILE *o = fopen(argv[2], "wb"); if (o) { fwrite(m->d, 1, m->n, o); fclose(o); } }
	for (int i = 0; i < nf; ++i) free(inodes[i]);
	sqfs_drop(proc); sqfs_drop(wr); sqfs_drop(tbl); sqfs_drop(cmp); sqfs_drop(unc); sqfs_drop(out);
	return 0;
}
