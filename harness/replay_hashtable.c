/* Drives lib/util/src/hash_table.c along an insertion sequence of spec/HashTable.tla.
 * usage: replay_hashtable <hash>:<id> ...      keys are <hash, id>, handed over pre-hashed; equality = both numbers equal.
 * Output: after all inserts the table size, the slots (index order: [hash, id] or null), the entry count, and for every key given
 * on the command line plus the probes behind "--" whether it is found. */
#include <stdio.h>
#include <stdlib.h>
#include <string.h>
#include "util/hash_table.h"

typedef struct { unsigned hash; int id; } key_t2;
static bool eq(void *user, const void *a, const void *b)
{
	(void)user;
	const key_t2 *x = a, *y = b;
	return x->hash == y->hash && x->id == y->id;
}

int main(int argc, char **argv)
{
	struct hash_table *ht = hash_table_create(NULL, eq);
	if (!ht) return 2;
	static key_t2 keys[256];
	int n = 0, a = 1;
	for (; a < argc && strcmp(argv[a], "--"); ++a) {
		if (sscanf(argv[a], "%u:%d", &keys[n].hash, &keys[n].id) != 2) return 2;
		if (!hash_table_insert_pre_hashed(ht, keys[n].hash, &keys[n], &keys[n])) { printf("{\"insert_failed\":%d}\n", n); return 0; }
		n++;
	}
	printf("{\"size\":%u,\"entries\":%u,\"slots\":[", ht->size, ht->entries);
	for (unsigned i = 0; i < ht->size; ++i) {
		const key_t2 *k = ht->table[i].key;
		if (k == NULL || k == ht->deleted_key) printf("%s[]", i ? "," : "");
		else printf("%s[%u,%d]", i ? "," : "", k->hash, k->id);
	}
	printf("],\"found\":[");
	int first = 1;
	for (int b = 1; b < argc; ++b) {
		key_t2 q;
		if (!strcmp(argv[b], "--")) continue;
		if (sscanf(argv[b], "%u:%d", &q.hash, &q.id) != 2) return 2;
		struct hash_entry *e = hash_table_search_pre_hashed(ht, q.hash, &q);
		printf("%s[%u,%d,%s]", first ? "" : ",", q.hash, q.id, e ? "true" : "false");
		first = 0;
	}
	printf("]}\n");
	hash_table_destroy(ht, NULL);
	return 0;
}
