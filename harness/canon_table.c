/* Runs the real canonicalize_name() and is_filename_sane() on every string over a 4-letter alphabet
 * up to a length (exhaustive) or on seeded random strings, and writes one JSON record per string. */
#include <stdio.h>
#include <stdlib.h>
#include <string.h>
#include <stdbool.h>
#include "util/util.h"

static const unsigned char alpha[4] = { '/', '.', 'a', 0xff };
static int cls(unsigned char c) { return c == '/' ? 0 : c == '.' ? 1 : c == 0xff ? 3 : 2; }

static void emit(const unsigned char *codes, int n)
{
	/* exact-size heap buffer so that ASan sees any access beyond the string */
	char *buf = malloc(n + 1), *orig = malloc(n + 1);
	for (int i = 0; i < n; ++i) buf[i] = (char)codes[i];
	buf[n] = 0;
	memcpy(orig, buf, n + 1);
	bool sane = is_filename_sane(orig, false);
	int rc = canonicalize_name(buf);
	printf("{\"s\":[");
	for (int i = 0; i < n; ++i) printf("%s%d", i ? "," : "", cls((unsigned char)orig[i]));
	printf("],\"rc\":%d,\"o\":[", rc ? 1 : 0);
	if (rc == 0) {
		size_t l = strlen(buf);
		for (size_t i = 0; i < l; ++i) printf("%s%d", i ? "," : "", cls((unsigned char)buf[i]));
	}
	printf("],\"sane\":%s}\n", sane ? "true" : "false");
	free(buf); free(orig);
}

int main(int argc, char **argv)
{
	if (argc < 3) return 2;
	unsigned char s[8192];
	if (!strcmp(argv[1], "all")) {
		int L = atoi(argv[2]);
		long part = argc > 3 ? atol(argv[3]) : 0, parts = argc > 4 ? atol(argv[4]) : 1;
		long idx = 0;
		for (int n = 0; n <= L; ++n) {
			long total = 1;
			for (int i = 0; i < n; ++i) total *= 4;
			for (long k = 0; k < total; ++k, ++idx) {
				if (idx % parts != part) continue;
				long v = k;
				for (int i = 0; i < n; ++i) { s[i] = alpha[v & 3]; v >>= 2; }
				emit(s, n);
			}
		}
	} else if (!strcmp(argv[1], "list")) {
		/* the strings given on the command line */
		for (int a = 2; a < argc; ++a) {
			int n = (int)strlen(argv[a]);
			memcpy(s, argv[a], n);
			emit(s, n);
		}
	} else {
		unsigned long long st = strtoull(argv[2], NULL, 10) * 2654435761ULL + 99;
		int count = atoi(argv[3]), maxlen = atoi(argv[4]);
		for (int c = 0; c < count; ++c) {
			st = st * 6364136223846793005ULL + 1442695040888963407ULL;
			int n = (int)((st >> 33) % (unsigned)(maxlen + 1));
			for (int i = 0; i < n; ++i) {
				st = st * 6364136223846793005ULL + 1442695040888963407ULL;
				unsigned r = (unsigned)(st >> 33) % 16;
				/* bias towards separators and dots */
				s[i] = r < 5 ? '/' : r < 10 ? '.' : r < 14 ? (unsigned char)('a' + r) : (unsigned char)(0x80 + r);
			}
			emit(s, n);
		}
	}
	return 0;
}
