/* Controlled scheduler shim: included with -include into translation units whose pthread use is to be
 * serialised.  All threads are real, exactly one runs at a time; every potentially blocking call parks. */
#ifndef VERIF_SCHED_H
#define VERIF_SCHED_H
#include <pthread.h>
#include <signal.h>

int  shim_mutex_init(void *m);
int  shim_mutex_destroy(void *m);
int  shim_mutex_lock(void *m);
int  shim_mutex_unlock(void *m);
int  shim_cond_init(void *c);
int  shim_cond_destroy(void *c);
int  shim_cond_wait(void *c, void *m);
int  shim_cond_broadcast(void *c);
int  shim_cond_signal(void *c);
int  shim_create(pthread_t *t, void *(*fun)(void *), void *arg);
int  shim_join(pthread_t t);
void shim_yield(int tag);

/* controller side */
enum { PK_NONE, PK_START, PK_YIELD, PK_LOCK, PK_WAIT, PK_JOIN, PK_FINISHED };
int  sched_nthreads(void);
int  sched_kind(int tid);          /* park kind */
int  sched_woken(int tid);
int  sched_tag(int tid);           /* tag of the last yield */
int  sched_enabled(int tid);
int  sched_step(int tid);          /* 0 ok, -1 not enabled, -2 thread did not park within the time limit */
int  sched_spurious(int tid);      /* 0 ok, -1 not waiting */
void sched_settle(void);
int  sched_all_finished(void);
int  sched_any_enabled(void);
int  sched_spawn(void *(*fun)(void *), void *arg);   /* controller creates a thread (parks at START) */
int  sched_self(void);
extern int sched_fail_create_at;
extern int sched_yield_on_unlock;  /* 1: every mutex unlock is a preemption point */   /* k-th shim_create (1-based) fails with EAGAIN; 0 = never */

#ifndef VERIF_SCHED_IMPL
#define pthread_mutex_init(m, a)     shim_mutex_init((void *)(m))
#define pthread_mutex_destroy(m)     shim_mutex_destroy((void *)(m))
#define pthread_mutex_lock(m)        shim_mutex_lock((void *)(m))
#define pthread_mutex_unlock(m)      shim_mutex_unlock((void *)(m))
#define pthread_cond_init(c, a)      shim_cond_init((void *)(c))
#define pthread_cond_destroy(c)      shim_cond_destroy((void *)(c))
#define pthread_cond_wait(c, m)      shim_cond_wait((void *)(c), (void *)(m))
#define pthread_cond_broadcast(c)    shim_cond_broadcast((void *)(c))
#define pthread_cond_signal(c)       shim_cond_signal((void *)(c))
#define pthread_create(t, a, f, arg) shim_create((t), (f), (arg))
#define pthread_join(t, r)           shim_join((t))
#define pthread_sigmask(h, s, o)     (0)
#endif
#endif
