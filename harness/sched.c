/* Runtime of the controlled scheduler (compiled WITHOUT -include sched.h macros). */
#define VERIF_SCHED_IMPL
#include "sched.h"
#include <semaphore.h>
#include <stdio.h>
#include <stdlib.h>
#include <string.h>
#include <time.h>
#include <errno.h>
#include <unistd.h>

#define MAXT 64
#define MAXM 64
typedef struct {
	pthread_t real;
	sem_t sem;
	int kind, woken, tag, finished;
	void *obj, *mtx;
	int join_target;
	void *(*fun)(void *);
	void *arg;
} sthread;

static sthread T[MAXT];
static int nT;
static sem_t ctl;
static __thread int self_id = -1;
int sched_fail_create_at;
static int ncreate;

static struct { void *addr; int owner; } M[MAXM];
static int nM;

static int *mowner(void *m)
{
	for (int i = 0; i < nM; ++i)
		if (M[i].addr == m)
			return &M[i].owner;
	if (nM == MAXM) { fprintf(stderr, "sched: too many mutexes\n"); _exit(9); }
	M[nM].addr = m; M[nM].owner = -1;
	return &M[nM++].owner;
}

static void park(int kind, void *obj, void *mtx)
{
	sthread *t = &T[self_id];
	t->kind = kind; t->obj = obj; t->mtx = mtx;
	sem_post(&ctl);
	while (sem_wait(&t->sem) != 0 && errno == EINTR) ;
	t->kind = PK_NONE;
}

static void *trampoline(void *p)
{
	sthread *t = p;
	self_id = (int)(t - T);
	while (sem_wait(&t->sem) != 0 && errno == EINTR) ;
	t->kind = PK_NONE;
	t->fun(t->arg);
	t->finished = 1; t->kind = PK_FINISHED;
	sem_post(&ctl);
	return NULL;
}

static int new_thread(void *(*fun)(void *), void *arg)
{
	if (nT == MAXT) { fprintf(stderr, "sched: too many threads\n"); _exit(9); }
	sthread *t = &T[nT];
	memset(t, 0, sizeof(*t));
	sem_init(&t->sem, 0, 0);
	t->kind = PK_START; t->fun = fun; t->arg = arg;
	if (pthread_create(&t->real, NULL, trampoline, t) != 0) { perror("pthread_create"); _exit(9); }
	return nT++;
}

int sched_spawn(void *(*fun)(void *), void *arg)
{
	static int init;
	if (!init) { sem_init(&ctl, 0, 0); init = 1; }
	return new_thread(fun, arg);
}

int sched_self(void) { return self_id; }
int shim_mutex_init(void *m) { *mowner(m) = -1; return 0; }
int shim_mutex_destroy(void *m) { (void)m; return 0; }
int shim_mutex_lock(void *m)
{
	park(PK_LOCK, m, m);
	int *o = mowner(m);
	if (*o != -1) { fprintf(stderr, "sched: lock of held mutex scheduled\n"); _exit(9); }
	*o = self_id;
	return 0;
}
int sched_yield_on_unlock;
int shim_mutex_unlock(void *m)
{
	*mowner(m) = -1;
	if (sched_yield_on_unlock && self_id >= 0)
		park(PK_YIELD, NULL, NULL);   /* preemption point right after the critical section */
	return 0;
}
int shim_cond_init(void *c) { (void)c; return 0; }
int shim_cond_destroy(void *c) { (void)c; return 0; }
int shim_cond_wait(void *c, void *m)
{
	int *o = mowner(m);
	*o = -1;
	T[self_id].woken = 0;
	park(PK_WAIT, c, m);
	if (*o != -1) { fprintf(stderr, "sched: relock of held mutex scheduled\n"); _exit(9); }
	*o = self_id;
	return 0;
}
int shim_cond_broadcast(void *c)
{
	for (int i = 0; i < nT; ++i)
		if (T[i].kind == PK_WAIT && T[i].obj == c)
			T[i].woken = 1;
	return 0;
}
int shim_cond_signal(void *c)
{
	for (int i = 0; i < nT; ++i)
		if (T[i].kind == PK_WAIT && T[i].obj == c && !T[i].woken) { T[i].woken = 1; break; }
	return 0;
}
int shim_create(pthread_t *t, void *(*fun)(void *), void *arg)
{
	++ncreate;
	if (sched_fail_create_at && ncreate == sched_fail_create_at)
		return EAGAIN;
	int id = new_thread(fun, arg);
	*t = (pthread_t)(unsigned long)(id + 1000);
	return 0;
}
int shim_join(pthread_t t)
{
	int id = (int)((unsigned long)t - 1000);
	T[self_id].join_target = id;
	park(PK_JOIN, NULL, NULL);
	pthread_join(T[id].real, NULL);
	return 0;
}
void shim_yield(int tag) { T[self_id].tag = tag; park(PK_YIELD, NULL, NULL); }

int sched_nthreads(void) { return nT; }
int sched_kind(int tid) { return T[tid].finished ? PK_FINISHED : T[tid].kind; }
int sched_woken(int tid) { return T[tid].woken; }
int sched_tag(int tid) { return T[tid].tag; }
int sched_enabled(int tid)
{
	sthread *t = &T[tid];
	if (t->finished) return 0;
	switch (t->kind) {
	case PK_START: case PK_YIELD: return 1;
	case PK_LOCK: return *mowner(t->mtx) == -1;
	case PK_WAIT: return t->woken && *mowner(t->mtx) == -1;
	case PK_JOIN: return T[t->join_target].finished;
	default: return 0;
	}
}
static int wait_ctl(void)
{
	struct timespec ts;
	clock_gettime(CLOCK_REALTIME, &ts);
	ts.tv_sec += 10;
	int r;
	while ((r = sem_timedwait(&ctl, &ts)) != 0 && errno == EINTR) ;
	return r;
}
int sched_step(int tid)
{
	if (tid < 0 || tid >= nT || !sched_enabled(tid)) return -1;
	sem_post(&T[tid].sem);
	if (wait_ctl() != 0) return -2;
	sched_settle();
	return 0;
}
int sched_spurious(int tid)
{
	if (tid < 0 || tid >= nT || T[tid].kind != PK_WAIT || T[tid].woken) return -1;
	T[tid].woken = 1;
	return 0;
}
void sched_settle(void)
{
	for (int again = 1; again; ) {
		again = 0;
		for (int i = 0; i < nT; ++i)
			if (T[i].kind == PK_START && !T[i].finished) {
				sem_post(&T[i].sem);
				if (wait_ctl() != 0) { fprintf(stderr, "sched: settle timeout\n"); _exit(8); }
				again = 1;
			}
	}
}
int sched_all_finished(void)
{
	for (int i = 0; i < nT; ++i) if (!T[i].finished) return 0;
	return 1;
}
int sched_any_enabled(void)
{
	for (int i = 0; i < nT; ++i) if (sched_enabled(i)) return 1;
	return 0;
}
