/* Drives lib/util/src/rbtree.c along an insertion sequence of spec/RbTree.tla.
 * usage: replay_rbtree <K> <copy after n inserts | -1> <release order: o = original first, c = copy first> <key> <key> ...
 * keys are ints compared numerically; value = index of the insert.  Output: pre-order (key, red) of the original and of the
 * copy, in-order keys, lookups for 1..K. */
#include <stdio.h>
#include <stdlib.h>
#include <string.h>
#include "util/rbtree.h"

static int cmp(const void *ctx, const void *a, const void *b)
{
	(void)ctx;
	int x = *(const int *)a, y = *(const int *)b;
	return x < y ? -1 : x > y ? 1 : 0;
}
static int first;
static void pre(rbtree_node_t *n) { if (!n) return; printf("%s[%d,%s]", first ? "" : ",", *(int *)rbtree_node_key(n), n->is_red ? "true" : "false"); first = 0; pre(n->left); pre(n->right); }
static void ino(rbtree_node_t *n) { if (!n) return; ino(n->left); printf("%s%d", first ? "" : ",", *(int *)rbtree_node_key(n)); first = 0; ino(n->right); }

int main(int argc, char **argv)
{
	if (argc < 4) return 2;
	int K = atoi(argv[1]), cat = atoi(argv[2]), copied = 0;
	rbtree_t t, c;
	if (rbtree_init(&t, sizeof(int), sizeof(int), cmp)) return 2;
	memset(&c, 0, sizeof(c));
	printf("{\"at_copy\":[");
	for (int a = 4; a <= argc; ++a) {
		if (cat == a - 4 && !copied) { if (rbtree_copy(&t, &c)) return 2; copied = 1; first = 1; pre(t.root); }
		if (a == argc) break;
		int k = atoi(argv[a]), v = a - 4;
		if (rbtree_insert(&t, &k, &v)) return 2;
	}
	printf("],\"pre\":["); first = 1; pre(t.root);
	printf("],\"inorder\":["); first = 1; ino(t.root);
	printf("],\"cpre\":["); first = 1; if (copied) pre(c.root);
	printf("],\"found\":[");
	for (int k = 1; k <= K; ++k) printf("%s%s", k > 1 ? "," : "", rbtree_lookup(&t, &k) ? "true" : "false");
	printf("],\"cfound\":[");
	for (int k = 1; k <= K; ++k) printf("%s%s", k > 1 ? "," : "", copied && rbtree_lookup(&c, &k) ? "true" : "false");
	printf("]}\n");
	if (argv[3][0] == 'o') { rbtree_cleanup(&t); if (copied) rbtree_cleanup(&c); }
	else { if (copied) rbtree_cleanup(&c); rbtree_cleanup(&t); }
	return 0;
}
