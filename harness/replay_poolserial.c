/* Drives the serial pool (lib/util/src/threadpool_serial.c) along a call sequence of spec/PoolSerial.tla.
 * usage: replay_poolserial <failing item | 0> <program of S / D>
 * Items are the integers 1, 2, ... (one per submit CALL, accepted or not), handed over as pointers.
 * Output: one JSON object: log = [["S", rc != 0, 0] | ["D", returned item, item the worker saw during the call]], status, destroy */
#include <stdio.h>
#include <stdlib.h>
#include <stdint.h>
#include <string.h>
#include <unistd.h>
#include <signal.h>
#include "util/threadpool.h"

static intptr_t failing, seen;
static int worker(void *user, void *item)
{
	(void)user;
	seen = (intptr_t)item;
	return ((intptr_t)item == failing && failing != 0) ? -5 : 0;
}

static void on_alarm(int s) { (void)s; static const char m[] = "\nHANG\n"; if (write(1, m, sizeof(m) - 1)) {} _exit(3); }

int main(int argc, char **argv)
{
	if (argc < 3) return 2;
	failing = atol(argv[1]);
	signal(SIGALRM, on_alarm);
	alarm(10);
	thread_pool_t *p = thread_pool_create_serial(worker);
	if (!p) return 2;
	intptr_t n = 0;
	printf("{\"log\":[");
	for (const char *c = argv[2]; *c; ++c) {
		if (c != argv[2]) printf(",");
		if (*c == 'S') {
			int rc = p->submit(p, (void *)(++n));
			printf("[\"S\",%d,0]", rc ? 1 : 0);
		} else {
			seen = 0;
			void *r = p->dequeue(p);
			printf("[\"D\",%ld,%ld]", (long)(intptr_t)r, (long)seen);
		}
		fflush(stdout);
	}
	printf("],\"status\":%d", p->get_status(p) ? 1 : 0);
	fflush(stdout);
	p->destroy(p);
	printf(",\"destroy\":\"ok\"}\n");
	return 0;
}
