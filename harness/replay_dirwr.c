/* Replays inputs of spec/DirWriter.tla on the real directory writer: the listing is written through a real meta writer (the
 * directory starts `off` bytes into a metadata block), flushed, and decoded again with the real meta reader functions
 * (read_dir_header / read_dir_ent); the runs are printed as one JSON line per case.
 * stdin:  D <off> | E <inode block> <inode number> <name length> | F
 * usage: replay_dirwr <scratch file> */
#include <stdio.h>
#include <stdlib.h>
#include <string.h>
#include <sys/stat.h>
#include "sqfs/dir_writer.h"
#include "sqfs/inode.h"
#include "sqfs/meta_writer.h"
#include "sqfs/meta_reader.h"
#include "sqfs/compressor.h"
#include "sqfs/dir.h"
#include "sqfs/io.h"
#include "sqfs/error.h"

int main(int argc, char **argv)
{
	sqfs_compressor_config_t cfg;
	sqfs_compressor_t *cmp, *ucmp;
	sqfs_meta_writer_t *dm = NULL;
	sqfs_dir_writer_t *dw = NULL;
	sqfs_file_t *file = NULL;
	char line[256], name[300];
	unsigned long off = 0, nent = 0;
	int err = 0;

	if (argc < 2) return 2;
	sqfs_compressor_config_init(&cfg, SQFS_COMP_GZIP, 4096, 0);
	if (sqfs_compressor_create(&cfg, &cmp)) return 2;
	sqfs_compressor_config_init(&cfg, SQFS_COMP_GZIP, 4096, SQFS_COMP_FLAG_UNCOMPRESS);
	if (sqfs_compressor_create(&cfg, &ucmp)) return 2;

	while (fgets(line, sizeof(line), stdin)) {
		if (line[0] == 'D') {
			static char pad[8192];
			if (dw) sqfs_drop(dw);
			if (dm) sqfs_drop(dm);
			if (file) sqfs_drop(file);
			file = NULL;
			off = strtoul(line + 2, NULL, 10);
			if (off >= sizeof(pad)) return 2;
			if (sqfs_file_open(&file, argv[1], SQFS_FILE_OPEN_OVERWRITE)) return 2;
			dm = sqfs_meta_writer_create(file, cmp, 0);
			dw = dm ? sqfs_dir_writer_create(dm, 0) : NULL;
			if (!dw) return 2;
			memset(pad, 'p', sizeof(pad));
			err = off ? sqfs_meta_writer_append(dm, pad, off) : 0;
			if (!err) err = sqfs_dir_writer_begin(dw, 0);
			nent = 0;
		} else if (line[0] == 'E') {
			unsigned long blk, num, nlen;
			if (sscanf(line + 2, "%lu %lu %lu", &blk, &num, &nlen) != 3 || nlen < 1 || nlen > 256) return 2;
			/* distinct ascending names of the given length */
			memset(name, 'n', nlen);
			name[nlen] = 0;
			if (nlen >= 6) { char num6[16]; snprintf(num6, sizeof(num6), "%06lu", nent % 1000000); memcpy(name, num6, 6); }
			err = err ? err : sqfs_dir_writer_add_entry(dw, name, num, ((sqfs_u64)blk << 16) | (nent % 8000), S_IFREG | 0644);
			nent++;
		} else if (line[0] == 'F') {
			sqfs_meta_reader_t *mr;
			sqfs_u64 ref;
			size_t size, done = 0;
			int first = 1, r = 0;

			err = err ? err : sqfs_dir_writer_end(dw);
			if (!err) err = sqfs_meta_writer_flush(dm);
			ref = sqfs_dir_writer_get_dir_reference(dw);
			size = sqfs_dir_writer_get_size(dw);
			printf("{\"err\":%d,\"ref_off\":%lu,\"size\":%lu,\"runs\":[", err, (unsigned long)(ref & 0xFFFF), (unsigned long)size);
			mr = sqfs_meta_reader_create(file, ucmp, 0, file->get_size(file));
			if (!mr) return 2;
			if (!err) r = sqfs_meta_reader_seek(mr, ref >> 16, ref & 0xFFFF);
			while (!err && !r && done < size) {
				sqfs_dir_header_t hdr;
				sqfs_u32 i;
				r = sqfs_meta_reader_read_dir_header(mr, &hdr);
				if (r) break;
				done += sizeof(hdr);
				printf("%s{\"count\":%u,\"blk\":%u,\"base\":%u,\"ents\":[", first ? "" : ",", hdr.count + 1, hdr.start_block, hdr.inode_number);
				first = 0;
				for (i = 0; i <= hdr.count && !r; ++i) {
					sqfs_dir_node_t *ent = NULL;
					r = sqfs_meta_reader_read_dir_ent(mr, &ent);
					if (r) break;
					printf("%s[%ld,%u]", i ? "," : "", (long)hdr.inode_number + ent->inode_diff, ent->size + 1);
					done += sizeof(*ent) + ent->size + 1;
					sqfs_free(ent);
				}
				printf("]}");
			}
			printf("],\"rerr\":%d,\"consumed\":%lu", r, (unsigned long)done);
			/* the directory index: extended inode (xattr index 0 forces it), entries unpacked by the library; block positions are byte
			   offsets of metadata blocks in the file: translated into block numbers by walking the block headers */
			if (!err) {
				sqfs_u64 boff[4096], o = 0, fsz = file->get_size(file);
				int nb = 0;
				while (o + 2 <= fsz && nb < 4096) { sqfs_u16 h; if (file->read_at(file, o, &h, 2)) break; boff[nb++] = o; o += 2 + (h & 0x7fff); }
				sqfs_inode_generic_t *ino = sqfs_dir_writer_create_inode(dw, 0, 0, 1);
				printf(",\"entry_count\":%lu,\"index_size\":%lu,\"index\":[", (unsigned long)sqfs_dir_writer_get_entry_count(dw), (unsigned long)sqfs_dir_writer_get_index_size(dw));
				if (ino && ino->base.type == SQFS_INODE_EXT_DIR) {
					for (unsigned i = 0; i < ino->data.dir_ext.inodex_count; ++i) {
						sqfs_dir_index_t *ie = NULL;
						int bn = -1;
						if (sqfs_inode_unpack_dir_index_entry(ino, &ie, i)) break;
						for (int k = 0; k < nb; ++k) if (boff[k] == ie->start_block) bn = k;
						printf("%s[%u,%d,%u]", i ? "," : "", ie->index, bn, ie->size + 1);
						sqfs_free(ie);
					}
				}
				printf("]");
				sqfs_free(ino);
			}
			printf("}\n");
			fflush(stdout);
			sqfs_drop(mr);
		}
	}
	if (dw) sqfs_drop(dw);
	if (dm) sqfs_drop(dm);
	if (file) sqfs_drop(file);
	sqfs_drop(cmp);
	sqfs_drop(ucmp);
	return 0;
}
