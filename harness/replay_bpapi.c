/* Drives the real block processor along ANY call sequence of spec/BlockProcApi.tla and reports the result of every call,
 * the files that were begun and ended (size, block count, fragment, content intact when read back from the output) and the
 * manually submitted blocks (written once, content intact).
 * usage: replay_bpapi <op> <op> ...     ops: B0 BF BX A1 A4 A5 E M1 M4 M5 MX S F
 * unit = 256 bytes, block = 4 units; a compressor that never shrinks anything, so every block is stored as it is. */
#include <stdio.h>
#include <stdlib.h>
#include <string.h>
#include "sqfs/block_processor.h"
#include "sqfs/block_writer.h"
#include "sqfs/frag_table.h"
#include "sqfs/compressor.h"
#include "sqfs/inode.h"
#include "sqfs/block.h"
#include "sqfs/error.h"
#include "sqfs/io.h"

#define U 256
#define BS 1024
typedef struct { sqfs_file_t base; unsigned char *d; size_t n; } memfile_t;
static int mf_read(sqfs_file_t *f, sqfs_u64 off, void *b, size_t s) { memfile_t *m = (memfile_t *)f; if (off + s > m->n) return SQFS_ERROR_OUT_OF_BOUNDS; memcpy(b, m->d + off, s); return 0; }
static int mf_write(sqfs_file_t *f, sqfs_u64 off, const void *b, size_t s) { memfile_t *m = (memfile_t *)f; if (off + s > m->n) { m->d = realloc(m->d, off + s); memset(m->d + m->n, 0, off + s - m->n); m->n = off + s; } memcpy(m->d + off, b, s); return 0; }
static sqfs_u64 mf_size(const sqfs_file_t *f) { return ((const memfile_t *)f)->n; }
static int mf_trunc(sqfs_file_t *f, sqfs_u64 s) { memfile_t *m = (memfile_t *)f; m->d = realloc(m->d, s ? s : 1); if (s > m->n) memset(m->d + m->n, 0, s - m->n); m->n = s; return 0; }
static const char *mf_name(sqfs_file_t *f) { (void)f; return "mem"; }
static void mf_destroy(sqfs_object_t *o) { free(((memfile_t *)o)->d); free(o); }
static sqfs_file_t *memfile(void)
{
	memfile_t *m = calloc(1, sizeof(*m));
	m->base.base.refcount = 1; m->base.base.destroy = mf_destroy;
	m->base.read_at = mf_read; m->base.write_at = mf_write; m->base.get_size = mf_size;
	m->base.truncate = mf_trunc; m->base.get_filename = mf_name;
	return (sqfs_file_t *)m;
}
typedef struct { sqfs_compressor_t base; } ncomp_t;
static void nc_destroy(sqfs_object_t *o) { free(o); }
static sqfs_object_t *nc_copy(const sqfs_object_t *o) { ncomp_t *c = malloc(sizeof(*c)); memcpy(c, o, sizeof(*c)); return (sqfs_object_t *)c; }
static void nc_getcfg(const sqfs_compressor_t *c, sqfs_compressor_config_t *cfg) { (void)c; memset(cfg, 0, sizeof(*cfg)); cfg->id = SQFS_COMP_GZIP; cfg->block_size = BS; }
static int nc_opt(sqfs_compressor_t *c, sqfs_file_t *f) { (void)c; (void)f; return 0; }
static sqfs_s32 nc_block(sqfs_compressor_t *b, const sqfs_u8 *in, sqfs_u32 size, sqfs_u8 *out, sqfs_u32 outsize) { (void)b; (void)in; (void)size; (void)out; (void)outsize; return 0; }
static sqfs_compressor_t *mkcomp(void)
{
	ncomp_t *c = calloc(1, sizeof(*c));
	c->base.base.refcount = 1; c->base.base.destroy = nc_destroy; c->base.base.copy = nc_copy;
	c->base.get_configuration = nc_getcfg; c->base.write_options = nc_opt; c->base.read_options = nc_opt;
	c->base.do_block = nc_block;
	return (sqfs_compressor_t *)c;
}
/* block writer wrapper: remembers where every block with a user pointer went */
typedef struct { sqfs_block_writer_t base; sqfs_block_writer_t *real; } wwr_t;
static struct { void *user; sqfs_u32 size; sqfs_u64 loc; } seen[256];
static int nseen;
static int w_write(sqfs_block_writer_t *w, void *user, sqfs_u32 size, sqfs_u32 chk, sqfs_u32 flags, const sqfs_u8 *data, sqfs_u64 *loc)
{
	wwr_t *ww = (wwr_t *)w;
	int r = ww->real->write_data_block(ww->real, user, size, chk, flags, data, loc);
	if (r == 0 && user != NULL && nseen < 256) { seen[nseen].user = user; seen[nseen].size = size; seen[nseen].loc = *loc; nseen++; }
	return r;
}
static sqfs_u64 w_count(const sqfs_block_writer_t *w) { const wwr_t *ww = (const wwr_t *)w; return ww->real->get_block_count(ww->real); }
static void w_destroy(sqfs_object_t *o) { sqfs_drop(((wwr_t *)o)->real); free(o); }

static unsigned char stamp;
static void fill(unsigned char *buf, int units) { for (int u = 0; u < units; ++u) { ++stamp; if (!stamp) ++stamp; memset(buf + u * U, stamp, U); buf[u * U] = 0xA5; } }

int main(int argc, char **argv)
{
	sqfs_file_t *out = memfile();
	wwr_t *ww = calloc(1, sizeof(*ww));
	ww->base.base.refcount = 1; ww->base.base.destroy = w_destroy;
	ww->base.write_data_block = w_write; ww->base.get_block_count = w_count;
	ww->real = sqfs_block_writer_create(out, 0);
	sqfs_frag_table_t *tbl = sqfs_frag_table_create(0);
	sqfs_compressor_t *cmp = mkcomp(), *unc = mkcomp();
	sqfs_block_processor_desc_t desc;
	sqfs_block_processor_t *proc = NULL;
	memset(&desc, 0, sizeof desc);
	desc.size = sizeof desc; desc.max_block_size = BS; desc.num_workers = 2; desc.max_backlog = 4;
	desc.cmp = cmp; desc.wr = (sqfs_block_writer_t *)ww; desc.tbl = tbl; desc.file = out; desc.uncmp = unc;
	int ret = sqfs_block_processor_create_ex(&desc, &proc);
	if (ret) { printf("{\"fatal\":\"create %d\"}\n", ret); return 0; }
	/* per file: the inode slot and what was appended */
	static sqfs_inode_generic_t *ino[64];
	static unsigned char want[64][8 * BS]; static size_t wlen[64]; static int ended[64];
	static unsigned char mbuf[64][2 * BS]; static size_t mlen[64]; int nman = 0;
	int nf = 0, open = -1;
	static unsigned char buf[2 * BS];
	printf("{\"log\":[");
	for (int a = 1; a < argc; ++a) {
		const char *op = argv[a]; int rc = 0;
		if (op[0] == 'B') {
			sqfs_u32 fl = op[1] == 'F' ? SQFS_BLK_DONT_FRAGMENT : op[1] == 'X' ? 0x00400000u : 0;
			rc = sqfs_block_processor_begin_file(proc, &ino[nf], NULL, fl);
			if (rc == 0) { open = nf++; wlen[open] = 0; }
		} else if (op[0] == 'A') {
			int n = op[1] - '0';
			fill(buf, n);
			rc = sqfs_block_processor_append(proc, buf, n * U);
			if (rc == 0 && open >= 0 && wlen[open] + n * U <= sizeof(want[0])) { memcpy(want[open] + wlen[open], buf, n * U); wlen[open] += n * U; }
		} else if (op[0] == 'E') {
			rc = sqfs_block_processor_end_file(proc);
			if (rc == 0 && open >= 0) { ended[open] = 1; open = -1; }
		} else if (op[0] == 'M') {
			int n = op[1] == 'X' ? 1 : op[1] - '0';
			fill(buf, n);
			rc = sqfs_block_processor_submit_block(proc, (void *)(size_t)(nman + 1), op[1] == 'X' ? 0x40000000u : 0, buf, n * U);
			if (rc == 0) { memcpy(mbuf[nman], buf, n * U); mlen[nman] = n * U; nman++; }
		} else if (op[0] == 'S') rc = sqfs_block_processor_sync(proc);
		else if (op[0] == 'F') rc = sqfs_block_processor_finish(proc);
		printf("%s[\"%s\",\"%s\"]", a > 1 ? "," : "", op, rc == 0 ? "OK" : rc == SQFS_ERROR_SEQUENCE ? "SEQUENCE" : rc == SQFS_ERROR_OVERFLOW ? "OVERFLOW" :
		       rc == SQFS_ERROR_UNSUPPORTED ? "UNSUPPORTED" : "OTHER");
	}
	int frc = sqfs_block_processor_finish(proc);
	const sqfs_block_processor_stats_t *st = sqfs_block_processor_get_stats(proc);
	printf("],\"finish\":%d,\"stats\":{\"input\":%llu,\"dblk\":%llu,\"frags\":%llu},\"files\":[", frc, (unsigned long long)(st->input_bytes_read / U),
	       (unsigned long long)st->data_block_count, (unsigned long long)st->total_frag_count);
	memfile_t *m = (memfile_t *)out;
	int first = 1;
	for (int i = 0; i < nf; ++i) {
		if (!ended[i] || !ino[i]) continue;
		sqfs_u64 size = 0, start = 0; sqfs_u32 fi = 0, fo = 0;
		sqfs_inode_get_file_size(ino[i], &size);
		sqfs_inode_get_file_block_start(ino[i], &start);
		sqfs_inode_get_frag_location(ino[i], &fi, &fo);
		size_t nb = ino[i]->payload_bytes_used / 4, pos = 0; int intact = size == wlen[i];
		sqfs_u64 off = start;
		for (size_t k = 0; k < nb && intact; ++k) {
			sqfs_u32 sz = SQFS_ON_DISK_BLOCK_SIZE(ino[i]->extra[k]);
			if (off + sz > m->n || pos + sz > wlen[i] || memcmp(m->d + off, want[i] + pos, sz)) intact = 0;
			off += sz; pos += sz;
		}
		int frag = fi != 0xFFFFFFFF;
		if (frag && intact) {
			sqfs_fragment_t e;
			if (sqfs_frag_table_lookup(tbl, fi, &e)) intact = 0;
			else {
				size_t rest = wlen[i] - pos;
				if (e.start_offset + fo + rest > m->n || fo + rest > SQFS_ON_DISK_BLOCK_SIZE(e.size) || memcmp(m->d + e.start_offset + fo, want[i] + pos, rest)) intact = 0;
				pos += rest;
			}
		}
		if (pos != wlen[i]) intact = 0;
		printf("%s{\"units\":%llu,\"nblk\":%zu,\"frag\":%s,\"intact\":%s}", first ? "" : ",", (unsigned long long)(size / U), nb, frag ? "true" : "false", intact ? "true" : "false");
		first = 0;
	}
	printf("],\"manual\":[");
	for (int i = 0; i < nman; ++i) {
		int hits = 0, ok = 0;
		for (int k = 0; k < nseen; ++k) if (seen[k].user == (void *)(size_t)(i + 1)) { hits++; ok = seen[k].size == mlen[i] && seen[k].loc + mlen[i] <= m->n && !memcmp(m->d + seen[k].loc, mbuf[i], mlen[i]); }
		printf("%s{\"units\":%zu,\"written\":%d,\"intact\":%s}", i ? "," : "", mlen[i] / U, hits, ok ? "true" : "false");
	}
	printf("]}\n");
	for (int i = 0; i < nf; ++i) free(ino[i]);
	sqfs_drop(proc); sqfs_drop(ww); sqfs_drop(tbl); sqfs_drop(cmp); sqfs_drop(unc); sqfs_drop(out);
	return 0;
}
